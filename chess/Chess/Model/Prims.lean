import Chess.Model.Text
/-! M1: the primitive types of `coordinates.rs`, `board_files.rs`, `board_ranks.rs`, `colors.rs`, `pieces.rs`. -/
namespace Chess

/-- `Square::new` -/
def Sq.new? (i : Nat) : Option Sq := if h : i < 64 then some ⟨i, h⟩ else none
/-- `File::from_index` / `Rank::from_index` -/
def idx8? (n : Nat) : Option (Fin 8) := if h : n < 8 then some ⟨n, h⟩ else none
/-- `File::right` / `Rank::up` -/
def succ8 (f : Fin 8) : Option (Fin 8) := idx8? (f.val + 1)
/-- `File::left` / `Rank::down` (explicit zero test, then `from_index(i - 1)`) -/
def pred8 (f : Fin 8) : Option (Fin 8) := if f.val = 0 then none else idx8? (f.val - 1)
/-- `Square::from_rank_file`: `(rank << 3) ^ file` on `u8` -/
def fromRankFile (r f : Fin 8) : Sq :=
  ⟨((BitVec.ofNat 8 r.val <<< 3) ^^^ BitVec.ofNat 8 f.val).toNat % 64, Nat.mod_lt _ (by decide)⟩
/-- `get_rank` = `self.0 >> 3`, `get_file` = `self.0 & 7` -/
def Sq.rank8 (s : Sq) : Fin 8 := ⟨s.val >>> 3, by have := s.isLt; simp [Nat.shiftRight_eq_div_pow]; omega⟩
def Sq.file8 (s : Sq) : Fin 8 := ⟨s.val &&& 7, by exact Nat.lt_succ_of_le (Nat.and_le_right)⟩
def Sq.up (s : Sq) : Option Sq := (succ8 s.rank8).map (fromRankFile · s.file8)
def Sq.down (s : Sq) : Option Sq := (pred8 s.rank8).map (fromRankFile · s.file8)
def Sq.right (s : Sq) : Option Sq := (succ8 s.file8).map (fromRankFile s.rank8 ·)
def Sq.left (s : Sq) : Option Sq := (pred8 s.file8).map (fromRankFile s.rank8 ·)
def Sq.isLight (s : Sq) : Bool := !((s.rank8.val + s.file8.val) % 2 == 0)
def Sq.isDark (s : Sq) : Bool := !s.isLight

def fileText (f : Fin 8) : Str := [fileChar f.val]
def rankText (r : Fin 8) : Str := [rankChar r.val]
def PT.text (p : PT) : Str := [p.letter]

end Chess
