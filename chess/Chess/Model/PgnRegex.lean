import Chess.Model.Game
/-! M1: the three uses of the `regex` crate in `Game::from_pgn`, for the FIXED patterns of that function, as an explicit
backtracking matcher (this is not a general regex engine).

`regex` finds *leftmost-first* matches: the search starts at the leftmost position where some match exists; the match
reported at that position is the one a backtracking engine finds first (alternation prefers its left branch, `*`, `?`
and `{2,}` are greedy and give characters back one at a time on failure); `find_iter` / `captures_iter` / `split`
continue after the end of the previous match.  None of the three patterns matches the empty string.

The matcher is written in continuation-passing style.  A `Cont` receives the input that is left and answers with the
input left after the *whole* match, or `none`.  Every pattern piece is a `Cont → Cont`: "what do I answer, given what must
match after me".  Backtracking is honest: a greedy piece first tries to consume, and only when *everything after it*
fails does it try the shorter alternative.

  (1) `(\r?\n){2,}`                                       `breaksRe`,  `splitSections`, `regexMovesSection`
  (2) `((([nNbBrRqQkK]*[a-h]*[1-8]*x*[a-h][1-8])|(O-O(-O)?))(=[nNbBrRqQ])?\+?\#?)`
                                                          `moveRe`,    `matchMoveAt`,   `findMoves`
  (3) `(1-0)|(0-1)|(1/2-1/2)`                             `resultRe`,  `findResults`,   `findResult`

and `Game.ofPgnRegex` is `from_pgn` with these tokenizers (metadata tags are read but never used by the move replay). -/
namespace Chess
namespace PgnRegex

/-- continuation: from the input left, the input left after the whole match (first in backtracking order) -/
abbrev Cont := Str → Option Str

/-! ### pattern pieces -/

/-- `[p]*` greedy: take a character of the class and go on; if everything after that fails, give it back -/
def star (p : Char → Bool) (k : Cont) : Cont
  | [] => k []
  | c :: cs =>
    if p c then
      match star p k cs with
      | some r => some r
      | none => k (c :: cs)
    else k (c :: cs)

/-- `[p]`: exactly one character of the class -/
def one (p : Char → Bool) (k : Cont) : Cont
  | [] => none
  | c :: cs => if p c then k cs else none

/-- a literal string -/
def lit : Str → Cont → Cont
  | [], k => k
  | a :: as, k => one (· == a) (lit as k)

/-- `(m)?` greedy: with `m` first, without it if that fails -/
def opt (m : Cont → Cont) (k : Cont) : Cont := fun s =>
  match m k s with
  | some r => some r
  | none => k s

/-- `(m₁)|(m₂)`: the left branch first -/
def alt (m₁ m₂ : Cont → Cont) (k : Cont) : Cont := fun s =>
  match m₁ k s with
  | some r => some r
  | none => m₂ k s

/-- `(m)*` greedy for a piece `m` that consumes at least one character; `fuel` bounds the number of rounds
(the length of the input is always enough) -/
def starM (m : Cont → Cont) (k : Cont) : Nat → Cont
  | 0 => k
  | fuel + 1 => fun s =>
    match m (starM m k fuel) s with
    | some r => some r
    | none => k s

/-! ### character classes -/
/-- `[nNbBrRqQkK]` -/
def clsPiece (c : Char) : Bool :=
  c == 'n' || c == 'N' || c == 'b' || c == 'B' || c == 'r' || c == 'R' || c == 'q' || c == 'Q' || c == 'k' || c == 'K'
/-- `[a-h]` -/
def clsFile (c : Char) : Bool := 'a'.toNat ≤ c.toNat && c.toNat ≤ 'h'.toNat
/-- `[1-8]` -/
def clsRank (c : Char) : Bool := '1'.toNat ≤ c.toNat && c.toNat ≤ '8'.toNat
/-- `x` -/
def clsX (c : Char) : Bool := c == 'x'
/-- `[nNbBrRqQ]` -/
def clsPromo (c : Char) : Bool :=
  c == 'n' || c == 'N' || c == 'b' || c == 'B' || c == 'r' || c == 'R' || c == 'q' || c == 'Q'

/-! ### (2) the move pattern -/
/-- `[nNbBrRqQkK]*[a-h]*[1-8]*x*[a-h][1-8]` -/
def pieceAlt (k : Cont) : Cont :=
  star clsPiece (star clsFile (star clsRank (star clsX (one clsFile (one clsRank k)))))
/-- `O-O(-O)?` -/
def castleAlt (k : Cont) : Cont := lit ['O', '-', 'O'] (opt (lit ['-', 'O']) k)
/-- `(=[nNbBrRqQ])?\+?\#?` -/
def suffixRe (k : Cont) : Cont :=
  opt (fun k' => one (· == '=') (one clsPromo k')) (opt (one (· == '+')) (opt (one (· == '#')) k))
/-- the whole move pattern -/
def moveRe (k : Cont) : Cont := alt pieceAlt castleAlt (suffixRe k)

/-! ### (3) the result pattern -/
/-- `(1-0)|(0-1)|(1/2-1/2)` -/
def resultRe (k : Cont) : Cont :=
  alt (lit ['1', '-', '0']) (alt (lit ['0', '-', '1']) (lit ['1', '/', '2', '-', '1', '/', '2'])) k

/-! ### (1) the section separator -/
/-- `\r?\n` -/
def lineBreakRe (k : Cont) : Cont := opt (one (· == '\r')) (one (· == '\n') k)
/-- `(\r?\n){2,}` (two rounds, then greedily as many as there are) -/
def breaksRe (fuel : Nat) (k : Cont) : Cont := lineBreakRe (lineBreakRe (starM lineBreakRe k fuel))

/-! ### searching -/
/-- the match of pattern `re` starting exactly here: matched text and the rest -/
def matchAt (re : Cont → Cont) (s : Str) : Option (Str × Str) :=
  match re some s with
  | some rest => some (s.take (s.length - rest.length), rest)
  | none => none

/-- all non-overlapping matches, left to right.  `skip` = number of characters still covered by the previous match;
where no match starts, move on by one character -/
def findAllFrom (re : Cont → Cont) : Nat → Str → List Str
  | _, [] => []
  | skip + 1, _ :: cs => findAllFrom re skip cs
  | 0, c :: cs =>
    match matchAt re (c :: cs) with
    | some (tok, _) => tok :: findAllFrom re (tok.length - 1) cs
    | none => findAllFrom re 0 cs

/-- `Regex::find_iter` / `captures_iter` (group 0) -/
def findAll (re : Cont → Cont) (s : Str) : List Str := findAllFrom re 0 s

/-- the match of the move pattern at the head of the text -/
def matchMoveAt (s : Str) : Option (Str × Str) := matchAt moveRe s
/-- the move tokens of a moves section -/
def findMoves (s : Str) : List Str := findAll moveRe s
/-- all result tokens -/
def findResults (s : Str) : List Str := findAll resultRe s
/-- `captures_iter(..).nth(0)` of the result pattern -/
def findResult (s : Str) : Option Str := (findResults s).head?

/-- `Regex::split`: the pieces between the matches of `(\r?\n){2,}` (always at least one piece) -/
def splitFrom (fuel : Nat) : Nat → Str → List Str
  | _, [] => [[]]
  | skip + 1, _ :: cs => splitFrom fuel skip cs
  | 0, c :: cs =>
    match matchAt (breaksRe fuel) (c :: cs) with
    | some (tok, _) => [] :: splitFrom fuel (tok.length - 1) cs
    | none =>
      match splitFrom fuel 0 cs with
      | p :: ps => (c :: p) :: ps
      | [] => [[c]]      -- unreachable: the result is never empty

def splitSections (s : Str) : List Str := splitFrom s.length 0 s

/-- `.split(pgn).nth(1)` -/
def regexMovesSection (pgn : Str) : Option Str := (splitSections pgn)[1]?

end PgnRegex

/-- `Game::from_pgn` with the regex tokenizers, given the start game (the metadata regex only fills the tag map, which the
replay never reads) -/
def Game.ofPgnRegex (K : Keys) (start : Game) (pgn : Str) : Except Err Game :=
  match PgnRegex.regexMovesSection pgn with
  | none => .error .invalidPgn
  | some ms =>
    match Game.replaySan K start (PgnRegex.findMoves ms) with
    | .error e => .error e
    | .ok g =>
      if g.status = .ongoing then
        match PgnRegex.findResult ms with
        | some r =>
          if r = "1-0".toList then g.act K (.resign .black)
          else if r = "0-1".toList then g.act K (.resign .white)
          else if r = "1/2-1/2".toList then
            (match g.act K (.offerDraw .white) with | .ok g1 => g1.act K .acceptDraw | .error e => .error e)
          else .ok g
        | none => .ok g
      else .ok g

end Chess
