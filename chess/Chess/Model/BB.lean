import Chess.Basic
/-! M1: `BitBoard(u64)` as `BitVec 64`.  `u64` intrinsics are modelled by definition:
`trailing_zeros` = least set index, `leading_zeros` dually, `count_ones` = number of set bits. -/
namespace Chess

abbrev BB := BitVec 64
/-- `BitBoard::from_square` -/
def bbOf (s : Sq) : BB := 1#64 <<< s.val
/-- bit test: is `s` a member of the set `b` -/
def mem (s : Sq) (b : BB) : Bool := b.getLsbD s.val
/-- `is_blank` -/
def isBlank (b : BB) : Bool := b == 0#64

/-- model of `last_bit_square` / `to_square` / `trailing_zeros`: least member -/
def lowest (b : BB) : Option Sq := allSq.find? (mem · b)
/-- model of `first_bit_square` / `63 - leading_zeros`: greatest member -/
def highest (b : BB) : Option Sq := allSq.reverse.find? (mem · b)

/-- `impl Iterator for BitBoard`: pop the lowest member until blank (fuel 64 suffices) -/
def toListAux : Nat → BB → List Sq
  | 0, _ => []
  | n+1, b => match lowest b with
    | none => []
    | some s => s :: toListAux n (b ^^^ bbOf s)
def toList (b : BB) : List Sq := toListAux 64 b

/-- `count_ones` -/
def popcount (b : BB) : Nat := (toList b).length

/-- `BitBoard::from_file` / `from_rank` (XOR loops over `RANKS` / `FILES`) -/
def bbOfFile (f : Fin 8) : BB :=
  (List.finRange 8).foldl (fun acc (r : Fin 8) => acc ^^^ bbOf ⟨r.val * 8 + f.val, by omega⟩) 0#64
def bbOfRank (r : Fin 8) : BB :=
  (List.finRange 8).foldl (fun acc (f : Fin 8) => acc ^^^ bbOf ⟨r.val * 8 + f.val, by omega⟩) 0#64

end Chess
