import Chess.Model.Board
import Chess.Spec.Rules
/-! Layout of the published key table: `keys[0]` black-to-move, then piece keys `[colour][type][square]`,
then castling keys `[colour][rights index]`, then the eight en-passant file keys (generation order of
`ZobristHasher::generate_tables`, which is also the order of the `zob` dump). -/
namespace Chess

def Keys.ofFn (k : Nat → BB) : Keys :=
  { black := k 0,
    piece := fun c p s => k (1 + c.idx * 384 + p.idx * 64 + s.val),
    castle := fun c r => k (769 + c.idx * 4 + r.idx),
    ep := fun f => k (777 + f.val) }

def Keys.ofArray (a : Array BB) : Keys := Keys.ofFn fun i => a[i]?.getD 0#64

/-- specification-level hash: the XOR of the published per-feature keys of a position
(pieces, side to move, castling rights of each colour, en-passant file) -/
def Keys.specHash (K : Keys) (p : Spec.Pos) : BB :=
  let h := allSq.foldl (fun h s => match p.board s with | some q => h ^^^ K.piece q.c q.pt s | none => h) 0#64
  let h := if p.stm = .black then h ^^^ K.black else h
  let h := h ^^^ K.castle .white (CR.ofBits (p.rights .white).k (p.rights .white).q)
             ^^^ K.castle .black (CR.ofBits (p.rights .black).k (p.rights .black).q)
  match p.ep with | some e => h ^^^ K.ep (Board.epFile e) | none => h

end Chess
