import Chess.Model.Board
/-! M1: text.  One representation everywhere: `List Char`; Rust's `str::len` is the UTF-8 byte length,
`&s[a..b]` / `str::get(a..b)` are `sliceBytes` (`none` off a char boundary or out of range). -/
namespace Chess
abbrev Str := List Char

def byteLen (s : Str) : Nat := s.foldl (fun n c => n + c.utf8Size) 0

/-- `str::split(c)`: always at least one piece -/
def splitOn (sep : Char) : Str → List Str
  | [] => [[]]
  | c :: cs =>
    match splitOn sep cs with
    | [] => [[c]]     -- unreachable: the result is never empty
    | p :: ps => if c = sep then [] :: p :: ps else (c :: p) :: ps

/-- drop exactly `n` bytes; `none` if `n` is not on a char boundary or beyond the end -/
def dropBytes (n : Nat) : Str → Option Str
  | [] => if n = 0 then some [] else none
  | c :: cs => if n = 0 then some (c :: cs) else if c.utf8Size ≤ n then dropBytes (n - c.utf8Size) cs else none
/-- take exactly `n` bytes -/
def takeBytes (n : Nat) : Str → Option Str
  | [] => if n = 0 then some [] else none
  | c :: cs => if n = 0 then some [] else if c.utf8Size ≤ n then (takeBytes (n - c.utf8Size) cs).map (c :: ·) else none
/-- `str::get(a..b)` -/
def sliceBytes (s : Str) (a b : Nat) : Option Str :=
  if a ≤ b then (dropBytes a s).bind (takeBytes (b - a)) else none

/-- `usize::from_str`: optional `+`, then one or more ASCII digits, value below 2^64 -/
def parseUsize (s : Str) : Option Nat :=
  let ds := match s with | '+' :: r => r | r => r
  if ds.isEmpty then none else
  if ds.all Char.isDigit then
    let v := ds.foldl (fun n c => n * 10 + (c.toNat - '0'.toNat)) 0
    if v < 2 ^ 64 then some v else none
  else none

/-- `format!("{n}")` -/
def natStr (n : Nat) : Str := (Nat.repr n).toList

/-! ### primitives: files, ranks, squares, piece letters -/
def fileChar (f : Nat) : Char := Char.ofNat ('a'.toNat + f)
def rankChar (r : Nat) : Char := Char.ofNat ('1'.toNat + r)

/-- `File::from_str` -/
def parseFile (s : Str) : Except Err (Fin 8) :=
  if byteLen s != 1 then .error .invalidFile else
  match s with
  | ['a'] => .ok 0 | ['b'] => .ok 1 | ['c'] => .ok 2 | ['d'] => .ok 3
  | ['e'] => .ok 4 | ['f'] => .ok 5 | ['g'] => .ok 6 | ['h'] => .ok 7
  | _ => .error .invalidFile
/-- `Rank::from_str` -/
def parseRank (s : Str) : Except Err (Fin 8) :=
  if byteLen s != 1 then .error .invalidRank else
  match s with
  | ['1'] => .ok 0 | ['2'] => .ok 1 | ['3'] => .ok 2 | ['4'] => .ok 3
  | ['5'] => .ok 4 | ['6'] => .ok 5 | ['7'] => .ok 6 | ['8'] => .ok 7
  | _ => .error .invalidRank
/-- `Square::from_str` -/
def parseSquare (s : Str) : Except Err Sq :=
  if byteLen s != 2 then .error .invalidSquare else
  match s with
  | c0 :: rest =>
    match parseFile [c0] with
    | .error _ => .error .invalidSquare
    | .ok f =>
      match rest with
      | c1 :: _ =>
        match parseRank [c1] with
        | .error _ => .error .invalidSquare
        | .ok r => .ok ⟨r.val * 8 + f.val, by omega⟩
      | [] => .error .invalidSquare   -- Rust: `chars[1]` would panic; unreachable (a 2-byte single char fails `File::from_str` first)
  | [] => .error .invalidSquare
/-- `Display for Square` -/
def printSquare (s : Sq) : Str := [fileChar s.fl, rankChar s.rk]

def PT.letter : PT → Char | .pawn => 'P' | .knight => 'N' | .bishop => 'B' | .rook => 'R' | .queen => 'Q' | .king => 'K'
/-- `PieceType::from_str` (empty ↦ Pawn; case-insensitive single ASCII letter) -/
def parsePieceType (s : Str) : Except Err PT :=
  if byteLen s > 1 then .error .invalidPiece else
  match s with
  | [] => .ok .pawn
  | c :: _ =>
    match c.toUpper with
    | 'P' => .ok .pawn | 'N' => .ok .knight | 'B' => .ok .bishop
    | 'R' => .ok .rook | 'Q' => .ok .queen | 'K' => .ok .king
    | _ => .error .invalidPiece

/-! ### coordinate move text -/
/-- `Display for PieceMove` / `BoardMove` -/
def printMove : Move → Str
  | .piece pt src dst promo =>
    (match pt with | .pawn => [] | p => [p.letter]) ++ printSquare src ++ printSquare dst ++
    (match promo with | some p => ['=', p.letter] | none => [])
  | .castle .king => "O-O".toList
  | .castle .queen => "O-O-O".toList

/-- `PieceMove::from_str` -/
def parsePieceMove (value : Str) : Except Err Move :=
  let tokens := splitOn '=' value
  let pieceStr := tokens.headD []
  let len := byteLen pieceStr
  if len < 4 then .error .invalidMoveText else
  let ptR : Except Err PT :=
    if len == 4 then .ok .pawn else
    match sliceBytes pieceStr 0 1 with
    | some s => (match parsePieceType s with | .ok p => .ok p | .error _ => .error .invalidMoveText)
    | none => .error .invalidMoveText
  match ptR with
  | .error e => .error e
  | .ok pt =>
  match (sliceBytes pieceStr (len - 4) (len - 2)).map parseSquare with
  | some (.ok src) =>
    match (sliceBytes pieceStr (len - 2) len).map parseSquare with
    | some (.ok dst) =>
      let promoR : Except Err (Option PT) :=
        match tokens with
        | _ :: t1 :: _ => (match parsePieceType t1 with | .ok p => .ok (some p) | .error _ => .error .invalidMoveText)
        | _ => .ok none
      match promoR with
      | .error e => .error e
      | .ok promo =>
        -- `PieceMove::new`
        if promo == some .pawn then .error .invalidPromotion else .ok (.piece pt src dst promo)
    | _ => .error .invalidMoveText
  | _ => .error .invalidMoveText

/-- `BoardMove::from_str` -/
def parseMove (value : Str) : Except Err Move :=
  if value = "O-O-O".toList then .ok (.castle .queen)
  else if value = "O-O".toList then .ok (.castle .king)
  else parsePieceMove value

/-! ### FEN -/
def CR.show : CR → Str | .neither => [] | .queenSide => ['q'] | .kingSide => ['k'] | .both => ['k', 'q']

def pieceChar (p : Piece) : Char := match p.c with | .white => p.pt.letter | .black => p.pt.letter.toLower

/-- one rank of the placement field, files a→h, with the run-length counter carried across ranks
exactly as in `Display for BoardBuilder` (it is flushed at the end of each rank) -/
def printRank (pieces : Sq → Option Piece) (r : Fin 8) : Str :=
  let step (acc : Str × Nat) (f : Fin 8) : Str × Nat :=
    match pieces ⟨r.val * 8 + f.val, by omega⟩ with
    | some p => ((if acc.2 != 0 then acc.1 ++ natStr acc.2 else acc.1) ++ [pieceChar p], 0)
    | none => (acc.1, acc.2 + 1)
  let (s, e) := (List.finRange 8).foldl step ([], 0)
  if e != 0 then s ++ natStr e else s

/-- `Display for BoardBuilder` -/
def printFen (bb : Builder) : Str :=
  let ranks : List (Fin 8) := [7, 6, 5, 4, 3, 2, 1, 0]
  let placement := ranks.foldl (fun acc r => (if r.val != 7 then acc ++ ['/'] else acc) ++ printRank bb.pieces r) []
  let castles := if bb.rights .white = .neither ∧ bb.rights .black = .neither then ['-']
    else ((bb.rights .white).show.map Char.toUpper) ++ (bb.rights .black).show
  placement ++ [' '] ++ [match bb.stm with | .white => 'w' | .black => 'b'] ++ [' '] ++ castles ++ [' '] ++
    (match bb.ep with | some s => printSquare s | none => ['-']) ++ [' '] ++ natStr bb.half ++ [' '] ++ natStr bb.full

structure FenCursor where
  pieces : Sq → Option Piece
  rank : Fin 8
  file : Fin 8

/-- one character of the placement field (`FromStr for BoardBuilder`) -/
def fenStep (cur : FenCursor) (c : Char) : Option FenCursor :=
  if c = '/' then
    if h : cur.rank.val = 0 then none else some { cur with rank := ⟨cur.rank.val - 1, by omega⟩, file := 0 }
  else if '1' ≤ c ∧ c ≤ '8' then
    let nf := cur.file.val + (c.toNat - '0'.toNat)
    if h : nf < 8 then some { cur with file := ⟨nf, h⟩ } else some cur
  else if c ∈ ['r', 'R', 'n', 'N', 'b', 'B', 'q', 'Q', 'k', 'K', 'p', 'P'] then
    let color := if c.isUpper then Color.white else Color.black
    match parsePieceType [c] with
    | .error _ => none
    | .ok t =>
      let sq : Sq := ⟨cur.rank.val * 8 + cur.file.val, by omega⟩
      let pieces := setFn cur.pieces sq (some ⟨t, color⟩)
      if h : cur.file.val + 1 < 8 then some { cur with pieces := pieces, file := ⟨cur.file.val + 1, h⟩ }
      else some { cur with pieces := pieces }
  else none

/-- `BoardBuilder::from_str` -/
def parseFen (value : Str) : Except Err Builder :=
  match splitOn ' ' value with
  | [pieces, side, castles, ep, t4, t5] =>
    match parseUsize t4 with
    | none => .error .invalidFen
    | some half =>
    match parseUsize t5 with
    | none => .error .invalidFen
    | some full =>
    let cur0 : FenCursor := { pieces := fun _ => none, rank := 7, file := 0 }
    match pieces.foldl (fun (st : Option FenCursor) c => st.bind (fenStep · c)) (some cur0) with
    | none => .error .invalidFen
    | some cur =>
    let stmR : Option Color :=
      if side = ['w'] ∨ side = ['W'] then some .white
      else if side = ['b'] ∨ side = ['B'] then some .black else none
    match stmR with
    | none => .error .invalidFen
    | some stm =>
    let wr := CR.ofBits (castles.contains 'K') (castles.contains 'Q')
    let br := CR.ofBits (castles.contains 'k') (castles.contains 'q')
    let epv := match parseSquare ep with | .ok s => some s | .error _ => none
    .ok { pieces := cur.pieces, stm := stm, rights := fun c => match c with | .white => wr | .black => br,
          ep := epv, half := half, full := full }
  | _ => .error .invalidFen

namespace Board
variable (K : Keys)
/-- `ChessBoard::from_str` / `from_fen` -/
def ofFen (s : Str) : Except Err Board :=
  match parseFen s with
  | .error e => .error e
  | .ok bb => ofBuilder K bb
/-- `as_fen` -/
def asFen (b : Board) : Str := printFen b.toBuilder

/-- `BoardBuilder::setup` from a piece list (later entries overwrite earlier ones) -/
def setupBuilder (pl : List (Sq × Piece)) (stm : Color) (wr br : CR) (ep : Option Sq) (half full : Nat) : Builder :=
  { pieces := pl.foldl (fun f sp => setFn f sp.1 (some sp.2)) (fun _ => none), stm := stm,
    rights := fun c => match c with | .white => wr | .black => br, ep := ep, half := half, full := full }
end Board
end Chess
