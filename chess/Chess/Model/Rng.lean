/-! Model of the random generator that produces the Zobrist key table of the Rust library:
`StdRng::seed_from_u64(SEED)` of `rand 0.8` followed by `rng.gen::<u64>()` calls
(`ZobristHasher::generate_tables`, src/zobrist.rs).

Sources modelled (cargo registry):
* `rand_core-0.6.4/src/lib.rs`   `SeedableRng::seed_from_u64`: PCG32 expansion of the `u64` into the 32-byte seed
* `rand-0.8.x/src/rngs/std.rs`    `StdRng` = `ChaCha12Rng`
* `rand_chacha-0.3.1/src/chacha.rs`, `guts.rs`: `ChaCha::new` (`init_chacha`), `round`, `diagonalize`, `undiagonalize`,
  `refill_wide` (4 blocks = 64 `u32` words per refill, 6 double rounds, 64-bit block counter in words 12-13, stream id 0)
* `rand_core-0.6.4/src/block.rs`  `BlockRng::new`, `generate_and_set`, `next_u64`
* `rand-0.8.x/src/distributions/integer.rs`: `Standard` for `u64` is `next_u64()`

All machine words are `Nat`s kept reduced (`% 2^32`, `% 2^64`) and only `Nat` primitives are used, so that the Lean
kernel can evaluate the generator (`decide +kernel`, GMP-accelerated `Nat.add/mul/mod/land/lor/xor/shiftLeft/shiftRight`).
No Mathlib. -/
namespace Chess.Rng

/-! ## 32-bit primitives -/

/-- `u32::wrapping_add` -/
def add32 (a b : Nat) : Nat := (a + b) % 4294967296
/-- `u32::rotate_right(k)`, `k < 32` (for `k = 0` the identity) -/
def rotr32 (x k : Nat) : Nat := Nat.lor (Nat.shiftRight x k) (Nat.shiftLeft x (32 - k) % 4294967296)

/-! ## `SeedableRng::seed_from_u64`: PCG32 expansion -/

/-- `*state = state.wrapping_mul(MUL).wrapping_add(INC)` -/
def pcgAdvance (state : Nat) : Nat := (state * 6364136223846793005 + 11634580027462260723) % 18446744073709551616

/-- the PCG output function on the advanced state:
`xorshifted = (((state >> 18) ^ state) >> 27) as u32; rot = (state >> 59) as u32; xorshifted.rotate_right(rot)` -/
def pcgOutput (state : Nat) : Nat :=
  rotr32 (Nat.shiftRight (Nat.xor (Nat.shiftRight state 18) state) 27 % 4294967296) (Nat.shiftRight state 59)

/-- `u32::to_le_bytes` -/
def toLeBytes (x : Nat) : List Nat :=
  [x % 256, Nat.shiftRight x 8 % 256, Nat.shiftRight x 16 % 256, Nat.shiftRight x 24 % 256]

/-- the 32-byte seed: 8 chunks of 4 bytes, chunk `j` = little-endian bytes of the `j`-th PCG32 output
(the state is advanced before each output) -/
def seedBytesAux : Nat → Nat → List Nat
  | 0, _ => []
  | n + 1, state => let s := pcgAdvance state; toLeBytes (pcgOutput s) ++ seedBytesAux n s
def seedBytes (seed : Nat) : List Nat := seedBytesAux 8 (seed % 18446744073709551616)

/-- `read_u32le` -/
def readU32le (b0 b1 b2 b3 : Nat) : Nat :=
  Nat.lor (Nat.lor b0 (Nat.shiftLeft b1 8)) (Nat.lor (Nat.shiftLeft b2 16) (Nat.shiftLeft b3 24))

/-- a byte string read as little-endian `u32` words (`m.read_le`) -/
def wordsOfBytes : List Nat → List Nat
  | b0 :: b1 :: b2 :: b3 :: r => readU32le b0 b1 b2 b3 :: wordsOfBytes r
  | _ => []

/-- the eight `u32` ChaCha key words obtained from a `u64` seed -/
def pcg32Seed (seed : Nat) : List Nat := wordsOfBytes (seedBytes seed)

/-! ## ChaCha (`rand_chacha::guts`) -/

/-- a row of the 4×4 ChaCha state: four `u32` words (`u32x4`) -/
structure V4 where
  x0 : Nat
  x1 : Nat
  x2 : Nat
  x3 : Nat

def V4.add (a b : V4) : V4 := ⟨add32 a.x0 b.x0, add32 a.x1 b.x1, add32 a.x2 b.x2, add32 a.x3 b.x3⟩
def V4.xor (a b : V4) : V4 := ⟨Nat.xor a.x0 b.x0, Nat.xor a.x1 b.x1, Nat.xor a.x2 b.x2, Nat.xor a.x3 b.x3⟩
/-- `rotate_each_word_right<k>` -/
def V4.rotr (a : V4) (k : Nat) : V4 := ⟨rotr32 a.x0 k, rotr32 a.x1 k, rotr32 a.x2 k, rotr32 a.x3 k⟩
/-- `shuffle_lane_words3012`: `[x0,x1,x2,x3] ↦ [x1,x2,x3,x0]`
(ppv-lite86 names the permutation by the source index of the words from the most significant one down) -/
def V4.shuffle3012 (a : V4) : V4 := ⟨a.x1, a.x2, a.x3, a.x0⟩
/-- `shuffle_lane_words2301`: `[x0,x1,x2,x3] ↦ [x2,x3,x0,x1]` -/
def V4.shuffle2301 (a : V4) : V4 := ⟨a.x2, a.x3, a.x0, a.x1⟩
/-- `shuffle_lane_words1230`: `[x0,x1,x2,x3] ↦ [x3,x0,x1,x2]` -/
def V4.shuffle1230 (a : V4) : V4 := ⟨a.x3, a.x0, a.x1, a.x2⟩
def V4.toList (a : V4) : List Nat := [a.x0, a.x1, a.x2, a.x3]

/-- `guts::State` (one lane) -/
structure State where
  a : V4
  b : V4
  c : V4
  d : V4

/-- `guts::round`: four quarter rounds on the columns -/
def round (x : State) : State :=
  let a := x.a.add x.b
  let d := (x.d.xor a).rotr 16
  let c := x.c.add d
  let b := (x.b.xor c).rotr 20
  let a := a.add b
  let d := (d.xor a).rotr 24
  let c := c.add d
  let b := (b.xor c).rotr 25
  ⟨a, b, c, d⟩

def diagonalize (x : State) : State := ⟨x.a, x.b.shuffle3012, x.c.shuffle2301, x.d.shuffle1230⟩
def undiagonalize (x : State) : State := ⟨x.a, x.b.shuffle1230, x.c.shuffle2301, x.d.shuffle3012⟩

/-- `x = round(x); x = undiagonalize(round(diagonalize(x)))` -/
def doubleRound (x : State) : State := undiagonalize (round (diagonalize (round x)))

def iter {α : Type} (f : α → α) : Nat → α → α
  | 0, x => x
  | n + 1, x => iter f n (f x)

/-- the constants "expand 32-byte k" -/
def sigma : V4 := ⟨0x61707865, 0x3320646e, 0x79622d32, 0x6b206574⟩

/-- `guts::ChaCha`: key rows `b`, `c`; row `d` = block counter (low, high word) and stream id (low, high word) -/
structure ChaCha where
  b : V4
  c : V4
  d : V4

/-- `ChaCha::new(&seed, &[0u8; 8])` (`init_chacha` with an 8-byte all-zero nonce): counter 0, stream id 0 -/
def ChaCha.new (seed : List Nat) : ChaCha :=
  match wordsOfBytes seed with
  | [k0, k1, k2, k3, k4, k5, k6, k7] => ⟨⟨k0, k1, k2, k3⟩, ⟨k4, k5, k6, k7⟩, ⟨0, 0, 0, 0⟩⟩
  | _ => ⟨⟨0, 0, 0, 0⟩, ⟨0, 0, 0, 0⟩, ⟨0, 0, 0, 0⟩⟩

/-- `pos64`: the 64-bit block counter -/
def ChaCha.pos64 (st : ChaCha) : Nat := Nat.lor (Nat.shiftLeft st.d.x1 32) st.d.x0

/-- `d0.insert((pos >> 32) as u32, 1).insert(pos as u32, 0)` with `pos = pos64.wrapping_add(j)` -/
def ChaCha.dAt (st : ChaCha) (j : Nat) : V4 :=
  let pos := (st.pos64 + j) % 18446744073709551616
  ⟨pos % 4294967296, Nat.shiftRight pos 32, st.d.x2, st.d.x3⟩

/-- one 16-word output block for counter row `d`: `drounds` double rounds on (σ, b, c, d), then the feed-forward
addition of the input state; words in the order a, b, c, d -/
def chachaBlock (st : ChaCha) (drounds : Nat) (d : V4) : List Nat :=
  let x := iter doubleRound drounds ⟨sigma, st.b, st.c, d⟩
  (x.a.add sigma).toList ++ ((x.b.add st.b).toList ++ ((x.c.add st.c).toList ++ (x.d.add d).toList))

/-- `refill_wide`: four consecutive blocks (counters pos, pos+1, pos+2, pos+3), the counter advances by 4 -/
def ChaCha.refill4 (st : ChaCha) (drounds : Nat) : List Nat × ChaCha :=
  (chachaBlock st drounds (st.dAt 0) ++ (chachaBlock st drounds (st.dAt 1) ++
    (chachaBlock st drounds (st.dAt 2) ++ chachaBlock st drounds (st.dAt 3))),
   { st with d := st.dAt 4 })

/-! ## `BlockRng<ChaCha12Core>` -/

/-- number of double rounds of `ChaCha12Core` -/
def drounds12 : Nat := 6

structure BlockRng where
  core : ChaCha
  index : Nat
  results : List Nat

def zeros : Nat → List Nat
  | 0 => []
  | n + 1 => 0 :: zeros n

/-- `BlockRng::new`: empty buffer of 64 words, `index = len` -/
def BlockRng.new (core : ChaCha) : BlockRng := ⟨core, 64, zeros 64⟩

/-- `generate_and_set(index)` -/
def BlockRng.generateAndSet (r : BlockRng) (index : Nat) : BlockRng :=
  let g := r.core.refill4 drounds12
  ⟨g.2, index, g.1⟩

def nth : List Nat → Nat → Nat
  | [], _ => 0
  | x :: _, 0 => x
  | _ :: r, n + 1 => nth r n

/-- `read_u64`: `u64::from(data[1]) << 32 | u64::from(data[0])` -/
def readU64 (results : List Nat) (index : Nat) : Nat :=
  Nat.lor (Nat.shiftLeft (nth results (index + 1)) 32) (nth results index)

/-- `BlockRng::next_u64` (with `len = 64`) -/
def BlockRng.nextU64 (r : BlockRng) : Nat × BlockRng :=
  bif Nat.blt r.index 63 then
    (readU64 r.results r.index, { r with index := r.index + 2 })
  else bif Nat.ble 64 r.index then
    let r' := r.generateAndSet 2
    (readU64 r'.results 0, r')
  else
    let x := nth r.results 63
    let r' := r.generateAndSet 1
    let y := nth r'.results 0
    (Nat.lor (Nat.shiftLeft y 32) x, r')

/-- `StdRng::seed_from_u64(seed)` -/
def seedFromU64 (seed : Nat) : BlockRng := BlockRng.new (ChaCha.new (seedBytes seed))

/-- the first `n` values of `rng.gen::<u64>()` from generator state `r` -/
def gens : Nat → BlockRng → List Nat
  | 0, _ => []
  | n + 1, r => let p := r.nextU64; p.1 :: gens n p.2

/-- the first `n` `u64` values produced after `StdRng::seed_from_u64(seed)` -/
def keyStream (seed n : Nat) : List Nat := gens n (seedFromU64 seed)

/-- the `i`-th (from 0) `u64` produced by `rng.gen::<u64>()` after `StdRng::seed_from_u64(seed)` -/
def key (seed i : Nat) : Nat := (iter (fun r => r.nextU64.2) i (seedFromU64 seed)).nextU64.1

/-- number of keys of the Zobrist table: 1 + 2·6·64 + 2·4 + 8 -/
def tableSize : Nat := 785

/-- the key table in generation order (index `i < 785`), the stream being computed once -/
def tableList (seed : Nat) : List Nat := keyStream seed tableSize
def table (seed : Nat) : Nat → Nat := fun i => nth (tableList seed) i

/-- `SEED` of src/zobrist.rs -/
def zobristSeed : Nat := 1370359990842121

def hexDigit (n : Nat) : Char := if n < 10 then Char.ofNat (48 + n) else Char.ofNat (87 + n)
def hexFixed : Nat → Nat → List Char
  | 0, _ => []
  | d + 1, n => hexFixed d (n / 16) ++ [hexDigit (n % 16)]
/-- 16 lower-case hex digits -/
def hex16 (n : Nat) : String := String.ofList (hexFixed 16 n)

/-- the model's Zobrist table for `SEED`, comma-separated 16-hex-digit keys in table order -/
def tableHex : String := ",".intercalate ((tableList zobristSeed).map hex16)

end Chess.Rng
