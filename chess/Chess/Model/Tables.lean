import Chess.Model.BB
/-! M1: the movement tables, built by the same 64×64 loops over rank/file offsets as
`src/move_masks/*.rs`.  Each table is a generator function (what the proofs talk about) plus an
`Array` cache used by the compiled driver; `*_eq` lemmas identify the two. -/
namespace Chess

/-- `Square::offsets_from`: (other.rank − self.rank, other.file − self.file) -/
def offsets (self other : Sq) : Int × Int := (other.rank - self.rank, other.file - self.file)

/-- the eight direction predicates of `generate_rays`, in table order:
0 up, 1 down, 2 right, 3 left, 4 up-right, 5 up-left, 6 down-right, 7 down-left -/
def rayCond (i : Fin 8) (dy dx : Int) : Bool :=
  match i with
  | 0 => decide (dy > 0) && dx == 0
  | 1 => decide (dy < 0) && dx == 0
  | 2 => dy == 0 && decide (dx > 0)
  | 3 => dy == 0 && decide (dx < 0)
  | 4 => ((dy.natAbs : Int) - dx.natAbs == 0) && decide (dx > 0) && decide (dy > 0)
  | 5 => ((dy.natAbs : Int) - dx.natAbs == 0) && decide (dx < 0) && decide (dy > 0)
  | 6 => ((dy.natAbs : Int) - dx.natAbs == 0) && decide (dx > 0) && decide (dy < 0)
  | 7 => ((dy.natAbs : Int) - dx.natAbs == 0) && decide (dx < 0) && decide (dy < 0)

/-- OR-accumulate the squares `d` satisfying `p` (the shape of every generator loop) -/
def collect (p : Sq → Bool) : BB := allSq.foldl (fun m d => if p d then m ||| bbOf d else m) 0#64

def rayGen (s : Sq) (i : Fin 8) : BB :=
  collect fun d => let o := offsets s d; rayCond i o.1 o.2

def knightGen (s : Sq) : BB :=
  collect fun d => let o := offsets s d
    (o.1.natAbs == 2 && o.2.natAbs == 1) || (o.1.natAbs == 1 && o.2.natAbs == 2)

/-- `generate_king_moves`: all squares at distance ≤ 1 (the source included), then XOR the source out -/
def kingGen (s : Sq) : BB :=
  (collect fun d => let o := offsets s d; decide (o.1.natAbs ≤ 1) && decide (o.2.natAbs ≤ 1)) ^^^ bbOf s

/-- `generate_pawn_moves`: `set_moves` overwrites, one destination qualifies -/
def pawnPushGen (c : Color) (s : Sq) : BB :=
  allSq.foldl (fun acc d => let o := offsets s d
    match c with
    | .white => if o.1 == 1 && o.2 == 0 then bbOf d else acc
    | .black => if o.1 == -1 && o.2 == 0 then bbOf d else acc) 0#64
def pawnDoubleGen (c : Color) (s : Sq) : BB :=
  allSq.foldl (fun acc d => let o := offsets s d
    match c with
    | .white => if o.1 == 1 && o.2 == 0 then acc else if o.1 == 2 && o.2 == 0 && s.rk == 1 then bbOf d else acc
    | .black => if o.1 == -1 && o.2 == 0 then acc else if o.1 == -2 && o.2 == 0 && s.rk == 6 then bbOf d else acc) 0#64
def pawnCapGen (c : Color) (s : Sq) : BB :=
  collect fun d => let o := offsets s d
    match c with
    | .white => o.1 == 1 && o.2.natAbs == 1
    | .black => o.1 == -1 && o.2.natAbs == 1

/-- `generate_between_masks` for one pair (the Rust fills it for `a ≤ b`; `get` swaps) -/
def betweenGen (a b : Sq) : Option BB :=
  if a = b then some 0#64 else
  let diff := offsets a b
  let d0 := diff.1.natAbs; let d1 := diff.2.natAbs
  if d0 == d1 || d0 == 0 || d1 == 0 then
    let mx : Nat := max d0 d1
    some ((List.range mx).foldl (fun (m : BB) (i : Nat) =>
      if 1 ≤ i then
        let r := a.rank + diff.1 / (mx : Int) * (i : Int)
        let f := a.file + diff.2 / (mx : Int) * (i : Int)
        match mkSq? r f with
        | some s => m ||| bbOf s
        | none => m      -- Rust: `Rank::from_index(..).unwrap()` would panic; unreachable (C17)
      else m) 0#64)
  else none

/-- triangular index of `BetweenTable::get/set` (i64 arithmetic) -/
def triIdx (ai bi : Nat) : Nat :=
  let ai_i : Int := ai
  ((64 : Int) * ai_i - (ai_i - 1) * ai_i / 2).toNat + bi - ai

/-! ### caches for the compiled driver -/
def raysArr : Array BB := Array.ofFn (n := 512) fun k => rayGen ⟨k.val / 8, by omega⟩ ⟨k.val % 8, by omega⟩
def knightArr : Array BB := Array.ofFn (n := 64) fun k => knightGen k
def kingArr : Array BB := Array.ofFn (n := 64) fun k => kingGen k
def pawnPushArr : Array BB := Array.ofFn (n := 128) fun k =>
  pawnPushGen (if k.val < 64 then .white else .black) ⟨k.val % 64, by omega⟩
def pawnDoubleArr : Array BB := Array.ofFn (n := 128) fun k =>
  pawnDoubleGen (if k.val < 64 then .white else .black) ⟨k.val % 64, by omega⟩
def pawnCapArr : Array BB := Array.ofFn (n := 128) fun k =>
  pawnCapGen (if k.val < 64 then .white else .black) ⟨k.val % 64, by omega⟩
def betweenArr : Array (Option BB) := Array.ofFn (n := 4096) fun k =>
  let a : Sq := ⟨k.val / 64, by omega⟩; let b : Sq := ⟨k.val % 64, by omega⟩
  if a.val ≤ b.val then betweenGen a b else betweenGen b a

/-- `RAYS.get(square)[i]` -/
def ray (s : Sq) (i : Fin 8) : BB := raysArr[s.val * 8 + i.val]'(by simp [raysArr]; omega)
/-- `KNIGHT.get_moves`, `KING.get_moves` -/
def knightT (s : Sq) : BB := knightArr[s.val]'(by simp [knightArr])
def kingT (s : Sq) : BB := kingArr[s.val]'(by simp [kingArr])
/-- `BISHOP/ROOK/QUEEN.get_moves`: OR of rays 4..8 / 0..4 / 0..8 -/
def bishopT (s : Sq) : BB := ray s 4 ||| ray s 5 ||| ray s 6 ||| ray s 7
def rookT (s : Sq) : BB := ray s 0 ||| ray s 1 ||| ray s 2 ||| ray s 3
def queenT (s : Sq) : BB := rookT s ||| bishopT s
/-- `PAWN.get_moves / get_double_moves / get_captures (square, color)` -/
def pawnPush (c : Color) (s : Sq) : BB := pawnPushArr[s.val + 64 * c.idx]'(by cases c <;> simp [pawnPushArr, Color.idx] <;> omega)
def pawnDouble (c : Color) (s : Sq) : BB := pawnDoubleArr[s.val + 64 * c.idx]'(by cases c <;> simp [pawnDoubleArr, Color.idx] <;> omega)
def pawnCap (c : Color) (s : Sq) : BB := pawnCapArr[s.val + 64 * c.idx]'(by cases c <;> simp [pawnCapArr, Color.idx] <;> omega)
/-- `BETWEEN.get(a, b)`; `none` = not on a common line -/
def between (a b : Sq) : Option BB := betweenArr[a.val * 64 + b.val]'(by simp [betweenArr]; omega)

end Chess
