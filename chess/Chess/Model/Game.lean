import Chess.Model.Text
/-! M1: SAN (`MovePropertiesOnBoard`, `BoardMove::to_string`), `GameHistory`, `Game`, PGN export/import,
and the text renderings. -/
namespace Chess

inductive Amb | extraFile | extraRank | extraSquare | neither deriving DecidableEq, Repr, Inhabited

structure MoveProps where
  isCheck : Bool
  isMate : Bool
  isCapture : Bool
  amb : Amb
  deriving DecidableEq, Repr, Inhabited

namespace Board
variable (K : Keys)

/-- `get_move_ambiguity_type` (a piece move) -/
def moveAmbiguity (b : Board) (pt : PT) (src dst : Sq) (promo : Option PT) : Except Err Amb :=
  if !b.isLegalMove K (.piece pt src dst promo) then .error .illegalMove else
  if pt == .pawn then (if src.fl != dst.fl then .ok .extraFile else .ok .neither)
  else if pt == .king then .ok .neither
  else
    let rivals : List Sq := (b.getLegalMoves K).filterMap fun m =>
      match m with
      | .piece pt' s' d' _ => if pt' == pt && d' == dst && s' != src then some s' else none
      | .castle _ => none
    if !rivals.isEmpty then
      if rivals.all (fun s => s.fl != src.fl) then .ok .extraFile
      else if rivals.all (fun s => s.rk != src.rk) then .ok .extraRank
      else .ok .extraSquare
    else .ok .neither

/-- `MovePropertiesOnBoard::new` -/
def moveProps (b : Board) (m : Move) : Except Err MoveProps :=
  match b.makeMove K m with
  | .error e => .error e
  | .ok after =>
    let isCheck := popcount after.checks > 0
    let isMate := after.term && isCheck
    let isCap := b.isCapture m
    let ambR : Except Err Amb := match m with
      | .piece .king _ _ _ => .ok .neither
      | .piece pt src dst promo => b.moveAmbiguity K pt src dst promo
      | .castle _ => .ok .neither
    match ambR with
    | .error e => .error e
    | .ok amb => .ok ⟨isCheck, isMate, isCap, amb⟩
end Board

/-- `BoardMove::to_string(properties)` -/
def sanText (m : Move) (p : MoveProps) : Str :=
  let chk : Str := if p.isMate then ['#'] else if p.isCheck then ['+'] else []
  match m with
  | .piece pt src dst promo =>
    (match pt with | .pawn => [] | t => [t.letter]) ++
    (match p.amb with
     | .extraFile => [fileChar src.fl] | .extraRank => [rankChar src.rk]
     | .extraSquare => printSquare src | .neither => []) ++
    (if p.isCapture then ['x'] else []) ++ printSquare dst ++
    (match promo with | some t => ['=', t.letter] | none => []) ++ chk
  | .castle .king => "O-O".toList ++ chk
  | .castle .queen => "O-O-O".toList ++ chk

/-! ### history -/
structure History where
  positions : List Board
  moves : List Move
  props : List MoveProps

namespace History
def fromPosition (b : Board) : History := ⟨[b], [], []⟩
/-- `get_position_on_move` -/
def positionOnMove (h : History) (n : Nat) : Except Err Board :=
  match h.positions[n]? with | some b => .ok b | none => .error .wrongMoveNumber
/-- one rendered token group -/
def renderStep (blackStarting : Bool) (i : Nat) (m : Move) (p : MoveProps) : Str :=
  let ms := sanText m p
  let ply := i + (if blackStarting then 1 else 0)
  if ply % 2 == 0 then natStr (ply / 2 + 1) ++ ['.'] ++ ms ++ [' ']
  else if i == 0 then natStr (ply / 2 + 1) ++ ". ... ".toList ++ ms ++ [' ']
  else ms ++ [' ']
/-- `Display for GameHistory` -/
def render (h : History) : Str :=
  let blackStarting := match h.positions with | p :: _ => p.stm == .black | [] => false
  let rec go (i : Nat) : List Move → List MoveProps → Str
    | m :: ms, p :: ps => renderStep blackStarting i m p ++ go (i + 1) ms ps
    | _, _ => []
  go 0 h.moves h.props
end History

/-! ### game -/
inductive GStatus
  | ongoing | drawOffered (c : Color) | checkMated (c : Color) | resigned (c : Color)
  | fiftyMoves | theoreticalDraw | repetition | drawAccepted | stalemate
  deriving DecidableEq, Repr, Inhabited

inductive Action | move (m : Move) | offerDraw (c : Color) | acceptDraw | declineDraw | resign (c : Color)
  deriving DecidableEq, Repr, Inhabited

def resultTagOf : GStatus → Str
  | .ongoing | .drawOffered _ => "?".toList
  | .checkMated .white | .resigned .white => "0-1".toList
  | .checkMated .black | .resigned .black => "1-0".toList
  | _ => "1/2-1/2".toList

structure Game where
  position : Board
  history : History
  counter : List (BB × Nat)      -- `BTreeMap<u64, usize>` as an association list (one entry per key)
  status : GStatus
  result : Str                   -- the `Result` metadata value

namespace Game
variable (K : Keys)

def counterGet (g : Game) (h : BB) : Nat := match g.counter.find? (·.1 == h) with | some e => e.2 | none => 0
/-- `get_position_counter` -/
def positionCounter (g : Game) (b : Board) : Nat := g.counterGet b.hash
/-- `position_counter_increment` (BTreeMap insert = replace-or-add) -/
def counterIncrement (g : Game) : Game :=
  let h := g.position.hash
  let n := g.counterGet h + 1
  { g with counter := if g.counter.any (·.1 == h) then g.counter.map (fun e => if e.1 == h then (h, n) else e) else g.counter ++ [(h, n)] }

/-- `set_game_status` -/
def setStatus (g : Game) (s : GStatus) : Game :=
  if s ≠ g.status then { g with result := resultTagOf s, status := s } else g

/-- `update_game_status` -/
def updateStatus (g : Game) (last : Option Action) : Game :=
  g.setStatus (match last with
    | none | some (.move _) =>
      match g.position.getStatus with
      | .checkmated c => .checkMated c
      | .theoreticalDraw => .theoreticalDraw
      | .stalemate => .stalemate
      | .fiftyMoves => .fiftyMoves
      | .ongoing => if g.positionCounter g.position ≥ 3 then .repetition else .ongoing
    | some (.offerDraw c) => .drawOffered c
    | some .declineDraw => .ongoing
    | some .acceptDraw => .drawAccepted
    | some (.resign c) => .resigned c)

/-- `Game::from_board` -/
def ofBoard (b : Board) : Game :=
  let g : Game := { position := b, history := History.fromPosition b, counter := [], status := .ongoing, result := "?".toList }
  (g.updateStatus none).counterIncrement

/-- `Game::make_move` -/
def act (g : Game) (a : Action) : Except Err Game :=
  match g.status with
  | .ongoing =>
    match a with
    | .move m =>
      match g.position.makeMove K m with
      | .ok nb =>
        match g.position.moveProps K m with
        | .error _ => .error .illegalAction      -- Rust: `unwrap()` in `history.push`; unreachable after a legal move
        | .ok mp =>
          let g1 := ({ g with position := nb } : Game).counterIncrement
          let g2 := { g1 with history := ⟨g1.history.positions ++ [nb], g1.history.moves ++ [m], g1.history.props ++ [mp]⟩ }
          .ok (g2.updateStatus (some a))
      | .error _ => .error .illegalAction
    | .acceptDraw | .declineDraw => .error .illegalAction
    | _ => .ok (g.updateStatus (some a))
  | .drawOffered _ =>
    match a with
    | .move _ | .offerDraw _ => .error .illegalAction
    | _ => .ok (g.updateStatus (some a))
  | _ => .error .gameFinished

/-! ### PGN -/
def defaultTags : List (Str × Str) :=
  [("Event".toList, "?".toList), ("Site".toList, "?".toList), ("Date".toList, "?".toList), ("Round".toList, "?".toList),
   ("White".toList, "Player 1".toList), ("Black".toList, "Player 2".toList)]

/-- greedy wrap at ASCII spaces, width 85 columns, words never split (the behaviour assumed of
`textwrap::wrap` with `AsciiSpace` + `NoHyphenation` on ASCII text; recorded assumption `WrapOK`) -/
def wrapWords (width : Nat) (words : List Str) : List Str :=
  let rec go (cur : Str) : List Str → List Str
    | [] => if cur.isEmpty then [] else [cur]
    | w :: ws =>
      if cur.isEmpty then go w ws
      else if cur.length + 1 + w.length ≤ width then go (cur ++ [' '] ++ w) ws
      else cur :: go w ws
  go [] words

def joinWith (sep : Str) : List Str → Str
  | [] => []
  | [x] => x
  | x :: xs => x ++ sep ++ joinWith sep xs

/-- `as_pgn` (default metadata) -/
def asPgn (g : Game) : Str :=
  let tags := (defaultTags ++ [("Result".toList, g.result)]).foldl
    (fun acc kv => acc ++ ['['] ++ kv.1 ++ " \"".toList ++ kv.2 ++ "\"]\n".toList) []
  let words := (splitOn ' ' g.history.render).filter (fun w => !w.isEmpty)
  tags ++ ['\n'] ++ joinWith ['\n'] (wrapWords 85 words) ++ [' '] ++ g.result

/-- the model's scanner of an exported moves section: whitespace-separated words, move-number
prefixes `N.` stripped, result tokens and `?` dropped (recorded assumption `ScanOK`: the four
regexes of `from_pgn` behave like this on export-shaped ASCII text) -/
def isResultWord (w : Str) : Bool := w = "1-0".toList || w = "0-1".toList || w = "1/2-1/2".toList || w = "?".toList || w = "*".toList
def stripNumber (w : Str) : Str :=
  let rest := w.dropWhile Char.isDigit
  match rest with
  | '.' :: r => if w.head?.any Char.isDigit then r else w
  | _ => w
def scanMoves (text : Str) : List Str :=
  let ws := (splitOn ' ' (text.map fun c => if c = '\n' then ' ' else c)).filter (fun w => !w.isEmpty)
  (ws.filter (fun w => !isResultWord w)).map stripNumber |>.filter (fun w => !w.isEmpty && w != "...".toList)
def scanResult (text : Str) : Option Str :=
  let ws := (splitOn ' ' (text.map fun c => if c = '\n' then ' ' else c)).filter (fun w => !w.isEmpty)
  ws.find? (fun w => w = "1-0".toList || w = "0-1".toList || w = "1/2-1/2".toList)

/-- replay of SAN tokens (`from_pgn` loop): literal lookup in the SAN map of the legal moves -/
def replaySan (g : Game) : List Str → Except Err Game
  | [] => .ok g
  | tok :: rest =>
    let cands := (g.position.getLegalMoves K).filterMap fun m =>
      match g.position.moveProps K m with
      | .ok mp => if sanText m mp = tok then some m else none
      | .error _ => none
    match cands.getLast? with     -- BTreeMap::from_iter keeps the last value of equal keys
    | none => .error .invalidPgn
    | some m =>
      match g.act K (.move m) with
      | .error e => .error e
      | .ok g' => replaySan g' rest

/-- `from_pgn` on an exported moves section (tags ignored), given the start game -/
def ofPgnMoves (start : Game) (movesPart : Str) : Except Err Game :=
  match replaySan K start (scanMoves movesPart) with
  | .error e => .error e
  | .ok g =>
    if g.status = .ongoing then
      match scanResult movesPart with
      | some r =>
        if r = "1-0".toList then g.act K (.resign .black)
        else if r = "0-1".toList then g.act K (.resign .white)
        else (match g.act K (.offerDraw .white) with | .ok g1 => g1.act K .acceptDraw | .error e => .error e)
      | none => .ok g
    else .ok g

end Game

/-! ### renderings -/
/-- `Display for GameStatus` -/
def Color.name : Color → Str | .white => "white".toList | .black => "black".toList
def GStatus.show : GStatus → Str
  | .ongoing => "the game is ongoing".toList
  | .drawOffered c => "draw offered by ".toList ++ c.name
  | .checkMated c => c.other.name ++ " won by checkmate".toList
  | .resigned c => c.other.name ++ " won by resignation".toList
  | .drawAccepted => "draw declared by agreement".toList
  | .fiftyMoves => "draw declared by a 50 moves rule".toList
  | .theoreticalDraw => "draw: no enough pieces".toList
  | .repetition => "draw declared by moves repetition".toList
  | .stalemate => "stalemate".toList

/-- `Display for BitBoard`: rank 8 first, file a first, `X ` / `. ` -/
def showBB (b : BB) : Str :=
  ([7, 6, 5, 4, 3, 2, 1, 0] : List (Fin 8)).flatMap fun r =>
    ((List.finRange 8).flatMap fun (f : Fin 8) =>
      if mem ⟨r.val * 8 + f.val, by omega⟩ b then ['X', ' '] else ['.', ' ']) ++ ['\n']

/-- `ChessBoard::render` with colour codes removed (assumption `PaintOK`: styling only adds escape codes) -/
def Board.renderPlain (b : Board) (ranks files : List (Fin 8)) (footer : Str) : Str :=
  let field := ranks.flatMap fun r =>
    natStr (r.val + 1) ++ "  ║".toList ++
    (files.flatMap fun f =>
      let sq : Sq := ⟨r.val * 8 + f.val, by omega⟩
      if b.isEmptySq sq then "   ".toList
      else match b.getPieceTypeOn sq, b.getPieceColorOn sq with
        | some t, some c => [' ', (match c with | .white => t.letter.toUpper | .black => t.letter.toLower), ' ']
        | _, _ => "   ".toList) ++ "║\n".toList
  "   ".toList ++ b.stm.name ++ "  ".toList ++ ((b.rights .white).show.map Char.toUpper) ++ (b.rights .black).show ++ ['\n'] ++
  "   ╔════════════════════════╗".toList ++ ['\n'] ++ field ++ "   ╚════════════════════════╝".toList ++ ['\n'] ++ footer ++ ['\n']

def Board.renderStraight (b : Board) : Str :=
  b.renderPlain [7, 6, 5, 4, 3, 2, 1, 0] [0, 1, 2, 3, 4, 5, 6, 7] "     a  b  c  d  e  f  g  h".toList
def Board.renderFlipped (b : Board) : Str :=
  b.renderPlain [0, 1, 2, 3, 4, 5, 6, 7] [7, 6, 5, 4, 3, 2, 1, 0] "     h  g  f  e  d  c  b  a".toList

end Chess
