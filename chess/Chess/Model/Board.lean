import Chess.Model.Tables
/-! M1: `ChessBoard` — function for function after `src/chess_boards.rs`, `src/castling.rs`,
`src/zobrist.rs`, `src/board_moves.rs` (the parts that touch the board).
`&mut self` becomes a returned value; loops become folds; every Rust `unwrap`/index that could
panic is either an explicit `Option`/`Except` branch or listed in a `panics_*` predicate. -/
namespace Chess

/-- `CastlingRights`, Rust declaration order (`as usize` = index) -/
inductive CR | neither | queenSide | kingSide | both deriving DecidableEq, Repr, Inhabited
namespace CR
def hasK : CR → Bool | .kingSide | .both => true | _ => false
def hasQ : CR → Bool | .queenSide | .both => true | _ => false
def hasAny (r : CR) : Bool := r != .neither
def ofBits (k q : Bool) : CR :=
  match k, q with
  | false, false => .neither | true, false => .kingSide | false, true => .queenSide | true, true => .both
def add (a b : CR) : CR := ofBits (a.hasK || b.hasK) (a.hasQ || b.hasQ)
def sub (a b : CR) : CR := ofBits (a.hasK && !b.hasK) (a.hasQ && !b.hasQ)
def idx : CR → Nat | .neither => 0 | .queenSide => 1 | .kingSide => 2 | .both => 3
def ofIdx? : Nat → Option CR | 0 => some .neither | 1 => some .queenSide | 2 => some .kingSide | 3 => some .both | _ => none
def all : List CR := [.neither, .queenSide, .kingSide, .both]
end CR

/-- the 785 published Zobrist keys (`ZobristHasher`), as an arbitrary parameter of the model -/
structure Keys where
  piece : Color → PT → Sq → BB
  castle : Color → CR → BB
  ep : Fin 8 → BB
  black : BB

deriving instance DecidableEq for Except

inductive Err
  | invalidFen | colorsOverlap | typeOverlap | selfNonConsistency | multipleKings | opponentInCheck
  | inconsistentEnPassant | inconsistentCastling | illegalMove | invalidMoveText | invalidPromotion
  | invalidSquare | invalidFile | invalidRank | invalidPiece | invalidIndex
  | illegalAction | gameFinished | wrongMoveNumber | invalidPgn
  deriving DecidableEq, Repr, Inhabited

structure Board where
  pieces : PT → BB
  colors : Color → BB
  combined : BB
  stm : Color
  rights : Color → CR
  ep : Option Sq
  pinned : BB
  checks : BB
  term : Bool
  half : Nat
  full : Nat
  hash : BB

/-- `ChessBoard::new()` -/
def Board.new : Board :=
  { pieces := fun _ => 0#64, colors := fun _ => 0#64, combined := 0#64, stm := .white,
    rights := fun _ => .both, ep := none, pinned := 0#64, checks := 0#64, term := false,
    half := 0, full := 1, hash := 0#64 }

def setFn {α β} [DecidableEq α] (f : α → β) (a : α) (v : β) : α → β := fun x => if x = a then v else f x
@[simp] theorem setFn_same {α β} [DecidableEq α] (f : α → β) (a : α) (v : β) : setFn f a v a = v := by simp [setFn]
@[simp] theorem setFn_other {α β} [DecidableEq α] (f : α → β) (a x : α) (v : β) (h : x ≠ a) : setFn f a v x = f x := by simp [setFn, h]

namespace Board
variable (K : Keys)

def backRank : Color → Nat | .white => 0 | .black => 7
def promoRank : Color → Nat | .white => 7 | .black => 0
theorem backRank_lt (c : Color) : backRank c < 8 := by cases c <;> decide
/-- `Square::from_rank_file(color.get_back_rank(), file)` -/
def homeSq (c : Color) (f : Nat) (hf : f < 8 := by decide) : Sq := ⟨backRank c * 8 + f, by have := backRank_lt c; omega⟩

def isEmptySq (b : Board) (s : Sq) : Bool := isBlank (b.combined &&& bbOf s)

/-- the index sum of `get_piece_type_on` -/
def typeIdxSum (b : Board) (s : Sq) : Nat :=
  [PT.knight, .bishop, .rook, .queen, .king].foldl
    (fun acc t => acc + t.idx * (if isBlank (b.pieces t &&& bbOf s) then 0 else 1)) 0
def getPieceTypeOn (b : Board) (s : Sq) : Option PT :=
  if b.isEmptySq s then none else PT.ofIdx? (b.typeIdxSum s)
/-- Rust panics (`from_index(sum).unwrap()`) exactly here -/
def panicsTypeOn (b : Board) (s : Sq) : Bool := !b.isEmptySq s && decide (b.typeIdxSum s > 5)
def getPieceColorOn (b : Board) (s : Sq) : Option Color :=
  if b.isEmptySq s then none
  else if isBlank (b.colors .white &&& bbOf s) then some .black else some .white
def getPieceOn (b : Board) (s : Sq) : Option Piece :=
  match b.getPieceTypeOn s with
  | none => none
  | some t => some ⟨t, if isBlank (b.colors .white &&& bbOf s) then .black else .white⟩

/-- `get_king_square`: `to_square` of king∩colour; Rust panics when that mask is blank -/
def kingSq? (b : Board) (c : Color) : Option Sq := lowest (b.pieces .king &&& b.colors c)
def kingSq (b : Board) (c : Color) : Sq := (b.kingSq? c).getD ⟨0, by decide⟩

/-! ### placement primitives -/
def clearSquare (b : Board) (s : Sq) : Board :=
  match b.getPieceOn s with
  | none => b
  | some p =>
    let m := ~~~(bbOf s)
    { b with combined := b.combined &&& m,
             pieces := setFn b.pieces p.pt (b.pieces p.pt &&& m),
             colors := setFn b.colors p.c (b.colors p.c &&& m),
             hash := b.hash ^^^ K.piece p.c p.pt s }

def putPiece (b : Board) (p : Piece) (s : Sq) : Board :=
  let b := if !b.isEmptySq s then b.clearSquare K s else b
  let m := bbOf s
  { b with combined := b.combined ^^^ m,
           pieces := setFn b.pieces p.pt (b.pieces p.pt ^^^ m),
           colors := setFn b.colors p.c (b.colors p.c ^^^ m),
           hash := b.hash ^^^ K.piece p.c p.pt s }

def setSideToMove (b : Board) (c : Color) : Board :=
  if c ≠ b.stm then { b with hash := b.hash ^^^ K.black, stm := c } else b

def setCastlingRights (b : Board) (c : Color) (r : CR) : Board :=
  let cur := b.rights c
  let h := if cur ≠ r then b.hash ^^^ K.castle c cur ^^^ K.castle c r else b.hash
  { b with hash := h, rights := setFn b.rights c r }

def epFile (s : Sq) : Fin 8 := ⟨s.val % 8, by omega⟩
def setEnPassant (b : Board) (e : Option Sq) : Board :=
  let h := match b.ep with | some s => b.hash ^^^ K.ep (epFile s) | none => b.hash
  let h := match e with | some s => h ^^^ K.ep (epFile s) | none => h
  { b with hash := h, ep := e }

/-! ### checks and pins -/
def fwd : Color → Int | .white => 1 | .black => -1

/-- squares from which an enemy pawn attacks `sq` when `c` is to move
(`square.up()/down()` then `left()/right()` in `get_pins_and_checks`) -/
def pawnAttT (c : Color) (sq : Sq) : BB :=
  let r := sq.rank + fwd c
  (match mkSq? r (sq.file - 1) with | some s => bbOf s | none => 0#64) |||
  (match mkSq? r (sq.file + 1) with | some s => bbOf s | none => 0#64)

def attackersOf (b : Board) (sq : Sq) : BB :=
  b.colors b.stm.other &&&
    ((bishopT sq &&& (b.pieces .bishop ||| b.pieces .queen)) ||| (rookT sq &&& (b.pieces .rook ||| b.pieces .queen)))

/-- `combined & BETWEEN.get(square, attacker).unwrap()` -/
def betweenOcc (b : Board) (sq a : Sq) : BB := b.combined &&& (between sq a).getD 0#64

def loopStep (b : Board) (sq : Sq) (acc : BB × BB) (a : Sq) : BB × BB :=
  let bt := b.betweenOcc sq a
  match popcount bt with
  | 0 => (acc.1, acc.2 ||| bbOf a)
  | 1 => (acc.1 ||| bt, acc.2)
  | _ => acc

def nonSliderChecks (b : Board) (sq : Sq) : BB :=
  b.colors b.stm.other &&&
    ((knightT sq &&& b.pieces .knight) ||| (kingT sq &&& b.pieces .king) ||| (pawnAttT b.stm sq &&& b.pieces .pawn))

/-- `get_pins_and_checks(square)` = (pinned, checks) -/
def pinsAndChecks (b : Board) (sq : Sq) : BB × BB :=
  let r := (toList (b.attackersOf sq)).foldl (b.loopStep sq) (0#64, 0#64)
  (r.1 &&& b.colors b.stm, r.2 ||| b.nonSliderChecks sq)

def isUnderAttack (b : Board) (sq : Sq) : Bool := !isBlank (b.pinsAndChecks sq).2

def updatePinsAndChecks (b : Board) : Board :=
  let r := b.pinsAndChecks (b.kingSq b.stm)
  { b with pinned := r.1, checks := r.2 }

/-! ### pseudo-legal destinations -/
/-- one ray of `truncate_rays`: the whole ray, or up to and including the nearest blocker.
Directions 0,2,4,5 increase the square index (nearest = lowest bit), 1,3,6,7 decrease it. -/
def raySeg (b : Board) (sq : Sq) (i : Fin 8) : BB :=
  let r := ray sq i
  let blocker := if i = 0 ∨ i = 2 ∨ i = 4 ∨ i = 5 then lowest (r &&& b.combined) else highest (r &&& b.combined)
  match blocker with
  | none => r
  | some s => (between sq s).getD 0#64 ^^^ bbOf s

def truncateRays (b : Board) (dirs : List (Fin 8)) (sq : Sq) : BB :=
  dirs.foldl (fun acc i => acc ^^^ b.raySeg sq i) 0#64 &&& ~~~(b.colors b.stm)

def rookDirs : List (Fin 8) := [0, 1, 2, 3]
def bishopDirs : List (Fin 8) := [4, 5, 6, 7]
def queenDirs : List (Fin 8) := [0, 1, 2, 3, 4, 5, 6, 7]

/-- `get_piece_moves_mask` -/
def pieceMovesMask (b : Board) (pt : PT) (sq : Sq) : BB :=
  let own := b.colors b.stm
  match pt with
  | .pawn =>
    let ep := match b.ep with | some e => bbOf e | none => 0#64
    let capturing := b.colors b.stm.other ||| ep
    let single := pawnPush b.stm sq &&& ~~~b.combined
    let dbl := if isBlank single then 0#64 else pawnDouble b.stm sq &&& ~~~b.combined
    single ||| dbl ||| (pawnCap b.stm sq &&& capturing)
  | .knight => knightT sq &&& ~~~own
  | .king => kingT sq &&& ~~~own
  | .bishop => b.truncateRays bishopDirs sq
  | .rook => b.truncateRays rookDirs sq
  | .queen => b.truncateRays queenDirs sq

/-- `PieceMove::is_en_passant_move` -/
def isEpMove (b : Board) (pt : PT) (dst : Sq) : Bool :=
  match b.ep with | some e => pt == .pawn && dst == e | none => false

/-- `PieceMove::is_capture_on_board` / `BoardMove::is_capture_on_board` -/
def isCapture (b : Board) : Move → Bool
  | .piece pt _ dst _ => !isBlank (bbOf dst &&& b.colors b.stm.other) || b.isEpMove pt dst
  | .castle _ => false

/-- `move_piece`; the Rust panics when the source square is empty -/
def movePiece (b : Board) (pt : PT) (src dst : Sq) (promo : Option PT) : Board :=
  match b.getPieceColorOn src with
  | none => b
  | some c => (b.clearSquare K src).putPiece K ⟨promo.getD pt, c⟩ dst

/-- square of the en-passant victim (`destination.down()/up()` by the mover's colour) -/
def epVictim (c : Color) (dst : Sq) : Option Sq := mkSq? (dst.rank - fwd c) dst.file

/-- `clear_square_if_en_passant_capture`; Rust `unwrap`s the victim square -/
def clearIfEp (b : Board) (pt : PT) (dst : Sq) : Board :=
  if b.isEpMove pt dst then
    match epVictim b.stm dst with
    | some v => b.clearSquare K v
    | none => b
  else b

/-- `get_check_mask_after_piece_move` -/
def checkMaskAfter (b : Board) (pt : PT) (src dst : Sq) (promo : Option PT) : BB :=
  (((b.movePiece K pt src dst promo).clearIfEp K pt dst).updatePinsAndChecks).checks

/-! ### castling availability -/
def castlingAvailable (b : Board) (checkMask : Option BB) : CR :=
  let checks := checkMask.getD b.checks
  if !isBlank checks then .neither else
  let c := b.stm
  let r0 := CR.neither
  let r1 :=
    if (b.rights c).hasK then
      let s1 := homeSq c 5; let s2 := homeSq c 6
      let notAtt := !b.isUnderAttack s1 && !b.isUnderAttack s2
      let empty := isBlank ((bbOf s1 ^^^ bbOf s2) &&& b.combined)
      if notAtt && empty then r0.add .kingSide else r0
    else r0
  if (b.rights c).hasQ then
    let s1 := homeSq c 3; let s2 := homeSq c 2; let s3 := homeSq c 1
    let notAtt := !b.isUnderAttack s1 && !b.isUnderAttack s2
    let empty := isBlank ((bbOf s1 ^^^ bbOf s2 ^^^ bbOf s3) &&& b.combined)
    if notAtt && empty then r1.add .queenSide else r1
  else r1

/-! ### legality -/
/-- the shortcut condition shared by `is_legal_move` and `get_legal_moves` -/
def needsFullCheck (b : Board) (checkMask : BB) (pt : PT) (src dst : Sq) : Bool :=
  !isBlank checkMask || pt == .king || b.isEpMove pt dst || !isBlank (bbOf src &&& b.pinned)

/-- `is_legal_move` -/
def isLegalMove (b : Board) : Move → Bool
  | .piece pt src dst promo =>
    if b.term then false else
    if isBlank (b.pieces pt &&& b.colors b.stm &&& bbOf src) then false else
    if isBlank (b.pieceMovesMask pt src &&& bbOf dst) then false else
    let isPromotionMove := pt == .pawn && dst.rk == promoRank b.stm
    if (promo.isSome != isPromotionMove) || promo == some .king then false else
    if b.needsFullCheck b.checks pt src dst then isBlank (b.checkMaskAfter K pt src dst promo) else true
  | .castle .king => if b.term then false else (b.castlingAvailable none).hasK
  | .castle .queen => if b.term then false else (b.castlingAvailable none).hasQ

/-- moves of one piece standing on `sq` (inner loop body of `get_legal_moves`) -/
def movesFrom (b : Board) (pt : PT) (sq : Sq) : List Move :=
  let dests := (toList (b.pieceMovesMask pt sq)).filter fun d =>
    if b.needsFullCheck b.checks pt sq d then isBlank (b.checkMaskAfter K pt sq d none) else true
  if pt == .pawn then
    dests.flatMap fun d =>
      if d.rk == promoRank b.stm then
        [.piece .pawn sq d (some .knight), .piece .pawn sq d (some .bishop),
         .piece .pawn sq d (some .rook), .piece .pawn sq d (some .queen)]
      else [.piece .pawn sq d none]
  else dests.map fun d => .piece pt sq d none

/-- `get_legal_moves` (in the Rust order) -/
def getLegalMoves (b : Board) : List Move :=
  let pm := PT.all.flatMap fun pt =>
    (toList (b.colors b.stm &&& b.pieces pt)).flatMap fun sq => b.movesFrom K pt sq
  pm ++ (match b.castlingAvailable (some b.checks) with
    | .queenSide => [.castle .queen]
    | .kingSide => [.castle .king]
    | .both => [.castle .king, .castle .queen]
    | .neither => [])

/-! ### status -/
inductive Status | ongoing | checkmated (c : Color) | theoreticalDraw | fiftyMoves | stalemate
  deriving DecidableEq, Repr, Inhabited

/-- `is_theoretical_draw_on_board`; the two `unreachable!()` arms (a side with no man) give `false` here -/
def isTheoreticalDraw (b : Board) : Bool :=
  let w := popcount (b.colors .white); let k := popcount (b.colors .black)
  if w > 2 || k > 2 then false else
  let bn := b.pieces .knight ||| b.pieces .bishop
  let wc := match w with | 1 => true | 2 => !isBlank (b.colors .white &&& bn) | _ => false
  let bc := match k with | 1 => true | 2 => !isBlank (b.colors .black &&& bn) | _ => false
  wc && bc
def panicsTheoreticalDraw (b : Board) : Bool :=
  let w := popcount (b.colors .white); let k := popcount (b.colors .black)
  !(w > 2 || k > 2) && (w == 0 || k == 0)

def getStatus (b : Board) : Status :=
  if b.term then (if popcount b.checks > 0 then .checkmated b.stm else .stalemate)
  else if b.isTheoreticalDraw then .theoreticalDraw
  else if b.half ≥ 100 then .fiftyMoves
  else .ongoing

/-- `update_terminal_status`: some piece has a pseudo-legal destination passing full evaluation -/
def hasEscape (b : Board) : Bool :=
  PT.all.any fun pt =>
    (toList (b.colors b.stm &&& b.pieces pt)).any fun sq =>
      (toList (b.pieceMovesMask pt sq)).any fun d => isBlank (b.checkMaskAfter K pt sq d none)
def updateTerminalStatus (b : Board) : Board := { b with term := !b.hasEscape K }

/-! ### move application -/
def updateMoveNumber (b : Board) : Board := if b.stm = .black then { b with full := b.full + 1 } else b

def updateMovesSinceCapture (b : Board) (m : Move) (isCap : Bool) : Board :=
  match m with
  | .piece pt _ _ _ => if pt == .pawn || isCap then { b with half := 0 } else { b with half := b.half + 1 }
  | .castle _ => { b with half := b.half + 1 }

def updateCastlingRights (b : Board) (m : Move) : Board :=
  let opp := b.stm.other
  let b1 := match m with
    | .piece _ _ dst _ =>
      if b.rights opp != .neither then
        b.setCastlingRights K opp ((b.rights opp).sub
          (if dst = homeSq opp 7 then .kingSide else if dst = homeSq opp 0 then .queenSide else .neither))
      else b
    | .castle _ => b
  if b1.rights b1.stm != .neither then
    b1.setCastlingRights K b1.stm ((b1.rights b1.stm).sub
      (match m with
       | .piece .rook src _ _ =>
          if src = homeSq b1.stm 7 then .kingSide else if src = homeSq b1.stm 0 then .queenSide else .neither
       | .piece .king _ _ _ => .both
       | .piece _ _ _ _ => .neither
       | .castle _ => .both))
  else b1

def updateEnPassant (b : Board) (m : Move) : Board :=
  match m with
  | .piece pt src dst _ =>
    let sr := src.rk; let dr := dst.rk
    if pt == .pawn && (if sr ≤ dr then dr - sr else sr - dr) == 2 then
      b.setEnPassant K (some ⟨((sr + dr) / 2) * 8 + dst.fl, by
        have : sr < 8 := by unfold sr Sq.rk; omega
        have : dr < 8 := by unfold dr Sq.rk; omega
        have : dst.fl < 8 := by unfold Sq.fl; omega
        omega⟩)
    else b.setEnPassant K none
  | .castle _ => b.setEnPassant K none

/-- `make_move_mut_unchecked` -/
def makeMoveUnchecked (b : Board) (m : Move) : Board :=
  let isCap := b.isCapture m
  let b1 := match m with
    | .piece pt src dst promo => (b.movePiece K pt src dst promo).clearIfEp K pt dst
    | .castle .king =>
      ((b.movePiece K .king (homeSq b.stm 4) (homeSq b.stm 6) none).movePiece K .rook (homeSq b.stm 7) (homeSq b.stm 5) none)
    | .castle .queen =>
      ((b.movePiece K .king (homeSq b.stm 4) (homeSq b.stm 2) none).movePiece K .rook (homeSq b.stm 0) (homeSq b.stm 3) none)
  let opp := b1.stm.other
  ((((((b1.updateMoveNumber.updateMovesSinceCapture m isCap).updateCastlingRights K m).setSideToMove K opp
    ).updateEnPassant K m).updatePinsAndChecks).updateTerminalStatus K)

/-- `make_move` / `make_move_mut`: checked application -/
def makeMove (b : Board) (m : Move) : Except Err Board :=
  if b.isLegalMove K m then .ok (b.makeMoveUnchecked K m) else .error .illegalMove

/-! ### hashing from scratch (`calculate_position_hash`) -/
def calcHash (b : Board) : BB :=
  let h := if b.stm = .black then K.black else 0#64
  let h := (toList b.combined).foldl (fun h sq =>
    match b.getPieceTypeOn sq, b.getPieceColorOn sq with
    | some t, some c => h ^^^ K.piece c t sq
    | _, _ => h) h
  let h := h ^^^ K.castle .white (b.rights .white) ^^^ K.castle .black (b.rights .black)
  match b.ep with | some s => h ^^^ K.ep (epFile s) | none => h

/-! ### validation and construction -/
def validate (b : Board) : Option Err :=
  if !isBlank (b.colors .white &&& b.colors .black) then some .colorsOverlap else
  if PT.all.any (fun t => PT.all.any fun u => decide (t.idx < u.idx) && !isBlank (b.pieces t &&& b.pieces u)) then some .typeOverlap else
  if PT.all.foldl (fun acc t => acc ||| b.pieces t) 0#64 != b.combined then some .selfNonConsistency else
  if popcount (b.pieces .king &&& b.colors .white) != 1 then some .multipleKings else
  if popcount (b.pieces .king &&& b.colors .black) != 1 then some .multipleKings else
  let cl := ({ b with stm := b.stm.other } : Board).updatePinsAndChecks
  if popcount cl.checks > 0 then some .opponentInCheck else
  let epBad := match b.ep with
    | none => false
    | some sq =>
      let opp := b.stm.other
      -- (en_passant_rank, pawn_square, origin_square)
      let epRank : Nat := match opp with | .white => 2 | .black => 5
      let pawnSq := mkSq? (sq.rank + fwd opp) sq.file
      let origSq := mkSq? (sq.rank - fwd opp) sq.file
      match pawnSq, origSq with
      | some p, some o =>
        !(sq.rk == epRank && b.isEmptySq sq && b.isEmptySq o &&
          !isBlank (b.pieces .pawn &&& b.colors opp &&& bbOf p))
      | _, _ => true
  if epBad then some .inconsistentEnPassant else
  let rightsBad (c : Color) : Bool :=
    let rooks := b.pieces .rook &&& b.colors c
    if b.kingSq c = homeSq c 4 then
      let vm := match b.rights c with
        | .neither => 0#64 | .queenSide => bbOf (homeSq c 0) | .kingSide => bbOf (homeSq c 7)
        | .both => bbOf (homeSq c 0) ||| bbOf (homeSq c 7)
      popcount (rooks &&& vm) != popcount vm
    else b.rights c != .neither
  if rightsBad .white then some .inconsistentCastling else
  if rightsBad .black then some .inconsistentCastling else
  none

end Board

/-- `BoardBuilder` -/
structure Builder where
  pieces : Sq → Option Piece
  stm : Color
  rights : Color → CR
  ep : Option Sq
  half : Nat
  full : Nat

def Builder.new : Builder :=
  { pieces := fun _ => none, stm := .white, rights := fun _ => .neither, ep := none, half := 0, full := 0 }

namespace Board
variable (K : Keys)

/-- `TryFrom<&BoardBuilder> for ChessBoard` -/
def ofBuilder (bb : Builder) : Except Err Board :=
  let b0 := allSq.foldl (fun b sq => match bb.pieces sq with | some p => b.putPiece K p sq | none => b) Board.new
  if popcount (b0.pieces .king &&& b0.colors .white) != 1 then .error .multipleKings else
  if popcount (b0.pieces .king &&& b0.colors .black) != 1 then .error .multipleKings else
  let b1 := ((((b0.setSideToMove K bb.stm).setEnPassant K bb.ep).setCastlingRights K .white (bb.rights .white)
            ).setCastlingRights K .black (bb.rights .black))
  let b2 := ({ b1 with full := bb.full, half := bb.half } : Board).updatePinsAndChecks
  let b3 := { b2 with hash := b2.calcHash K }
  match b3.validate with
  | none => .ok (b3.updateTerminalStatus K)
  | some e => .error e

/-- `From<ChessBoard> for BoardBuilder` -/
def toBuilder (b : Board) : Builder :=
  { pieces := fun sq => match b.getPieceTypeOn sq, b.getPieceColorOn sq with
      | some t, some c => some ⟨t, c⟩ | _, _ => none,
    stm := b.stm, rights := b.rights, ep := b.ep, half := b.half, full := b.full }

end Board
end Chess
