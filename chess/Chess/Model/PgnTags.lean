import Chess.Model.PgnRegex
/-! M1: the TAG SECTION of `Game::from_pgn` / `Game::as_pgn` — the fourth use of the `regex` crate in `from_pgn`
(the metadata pattern), the metadata map (`GameMetadata`, a `BTreeMap<String, String>`), and `from_pgn` / `as_pgn`
with the map.

```
(?x)\[
(\s*[\w\d_]+) # key pattern
\s+
"([\s\w\d:/\.\?,-]*)" # value pattern in quotes
\s*
\]
```

`(?x)` makes `regex-syntax` drop the white space of the pattern and the `# …` comments up to the end of their line, so
the pattern is `\[(\s*[\w\d_]+)\s+"([\s\w\d:/\.\?,-]*)"\s*\]` with two capture groups, both mandatory.

The matcher is the one of `Chess/Model/PgnRegex.lean` — continuation-passing, leftmost-first, greedy with honest
backtracking — with the answer type of the continuations left open (`ContA α`; `ContA Str` *is* `PgnRegex.Cont`, and
`starA`, `oneA` are then `PgnRegex.star`, `PgnRegex.one`: `starA_eq_star`, `oneA_eq_one` in `Props/C15Tags.lean`), so
that the final continuation can answer with the capture groups.  How each quantifier is rendered:

* `[p]*`  = `starA p`: take a character of the class and go on; only when *everything after it* (the continuation)
  fails is the character given back — greedy, one character at a time, the order in which a backtracking engine
  explores.
* `[p]+`  = `plusA p` = `oneA p ∘ starA p`: one mandatory character, then `[p]*`.  `x+` and `xx*` explore the same
  paths in the same order (longest first, down to one character).
* a literal character = `oneA (· == c)`.
* a capture group boundary = `mark`: it hands the continuation the input left *at this point* (the position an engine
  stores in a capture slot).  The continuation is a closure over that position, so when a later piece fails and an
  earlier greedy piece gives a character back, the pieces after it are run again and the slots are overwritten — just
  as in a backtracking engine; the groups reported are those of the first successful path.

The final continuation of `tagRe` receives the four slot positions `a b c d` (as suffixes of the input) and the input
left after the match; group 1 is the text between `a` and `b`, group 2 the text between `c` and `d`
(`between`).  Both groups are mandatory parts of the only branch of the pattern, so `cap[1]` and `cap[2]` never panic:
`matchTagAt` answers with both or with nothing.

Character classes: the `regex` crate is Unicode-aware.  The ASCII part of `\s` (White_Space: U+0009–U+000D, U+0020),
`\d` (Nd: `0`–`9`) and `\w` (`0-9A-Z_a-z`) is modelled exactly; what the classes contain beyond U+007F is a
*parameter* (`UniClasses`), consulted only for characters ≥ 128.  Every theorem holds for every instantiation. -/
namespace Chess
namespace PgnTags

/-! ### character classes -/

/-- the non-ASCII part of `\w`, `\s`, `\d` (consulted only for characters ≥ 128) -/
structure UniClasses where
  w : Char → Bool
  s : Char → Bool
  d : Char → Bool

/-- no non-ASCII character in any class -/
def UniClasses.none : UniClasses := ⟨fun _ => false, fun _ => false, fun _ => false⟩

/-- ASCII `\s`: `\t \n \x0B \x0C \r` and the space -/
def asciiS (c : Char) : Bool := (9 ≤ c.toNat && c.toNat ≤ 13) || c.toNat == 32
/-- ASCII `\d`: `0`–`9` -/
def asciiD (c : Char) : Bool := 48 ≤ c.toNat && c.toNat ≤ 57
/-- ASCII `\w`: `0-9`, `A-Z`, `_`, `a-z` -/
def asciiW (c : Char) : Bool :=
  (48 ≤ c.toNat && c.toNat ≤ 57) || (65 ≤ c.toNat && c.toNat ≤ 90) || c.toNat == 95 || (97 ≤ c.toNat && c.toNat ≤ 122)

/-- `\s` -/
def clsS (U : UniClasses) (c : Char) : Bool := if c.toNat < 128 then asciiS c else U.s c
/-- `\d` -/
def clsD (U : UniClasses) (c : Char) : Bool := if c.toNat < 128 then asciiD c else U.d c
/-- `\w` -/
def clsW (U : UniClasses) (c : Char) : Bool := if c.toNat < 128 then asciiW c else U.w c
/-- `[\w\d_]` -/
def clsKey (U : UniClasses) (c : Char) : Bool := clsW U c || clsD U c || c == '_'
/-- `[\s\w\d:/\.\?,-]` -/
def clsVal (U : UniClasses) (c : Char) : Bool :=
  clsS U c || clsW U c || clsD U c || c == ':' || c == '/' || c == '.' || c == '?' || c == ',' || c == '-'

/-! ### the matcher, with an open answer type -/

/-- continuation: from the input left, the answer of the whole match (first in backtracking order) -/
abbrev ContA (α : Type) := Str → Option α

/-- `[p]*` greedy: take a character of the class and go on; if everything after that fails, give it back -/
def starA {α : Type} (p : Char → Bool) (k : ContA α) : ContA α
  | [] => k []
  | c :: cs =>
    if p c then
      match starA p k cs with
      | some r => some r
      | none => k (c :: cs)
    else k (c :: cs)

/-- `[p]`: exactly one character of the class -/
def oneA {α : Type} (p : Char → Bool) (k : ContA α) : ContA α
  | [] => none
  | c :: cs => if p c then k cs else none

/-- `[p]+` greedy = `[p][p]*` -/
def plusA {α : Type} (p : Char → Bool) (k : ContA α) : ContA α := oneA p (starA p k)

/-- a capture slot: the continuation is told the input left at this point -/
def mark {α : Type} (k : Str → ContA α) : ContA α := fun s => k s s

/-- the text between two positions (`a`: input left at the first, `b`: input left at the second, a suffix of `a`) -/
def between (a b : Str) : Str := a.take (a.length - b.length)

/-- `\[(\s*[\w\d_]+)\s+"([\s\w\d:/\.\?,-]*)"\s*\]`; `k a b c d` continues after the `]`, knowing the four slots:
group 1 = `between a b`, group 2 = `between c d` -/
def tagRe {α : Type} (U : UniClasses) (k : Str → Str → Str → Str → ContA α) : ContA α :=
  oneA (· == '[') <| mark fun a =>
  starA (clsS U) <| plusA (clsKey U) <| mark fun b =>
  plusA (clsS U) <| oneA (· == '"') <| mark fun c =>
  starA (clsVal U) <| mark fun d =>
  oneA (· == '"') <| starA (clsS U) <| oneA (· == ']') <| k a b c d

/-- the match of the metadata pattern starting exactly here: (group 1, group 2, the input left after the match).
Both groups or nothing: `cap[1]`, `cap[2]` cannot panic. -/
def matchTagAt (U : UniClasses) (s : Str) : Option (Str × Str × Str) :=
  tagRe U (fun a b c d rest => some (between a b, between c d, rest)) s

/-- all non-overlapping matches, left to right (`captures_iter`), as (group 1, group 2).  `skip` = number of characters
still covered by the previous match; where no match starts, move on by one character.  (A match is never empty: it
starts with `[`.) -/
def findTagsFrom (U : UniClasses) : Nat → Str → List (Str × Str)
  | _, [] => []
  | skip + 1, _ :: cs => findTagsFrom U skip cs
  | 0, c :: cs =>
    match matchTagAt U (c :: cs) with
    | some (k, v, rest) => (k, v) :: findTagsFrom U (cs.length - rest.length) cs
    | none => findTagsFrom U 0 cs

/-- `Regex::new(metadata_pattern).captures_iter(pgn)` as the list of `(cap[1], cap[2])` -/
def findTags (U : UniClasses) (s : Str) : List (Str × Str) := findTagsFrom U 0 s

/-! ### the metadata map -/

/-- `BTreeMap<String, String>` as an association list sorted by key, strictly increasing in the order of `String`:
byte-wise lexicographic on the UTF-8 encoding -/
abbrev Metadata := List (Str × Str)

/-- the UTF-8 encoding of a character -/
def utf8 (c : Char) : List Nat :=
  let n := c.toNat
  if n < 0x80 then [n]
  else if n < 0x800 then [0xC0 + n / 64, 0x80 + n % 64]
  else if n < 0x10000 then [0xE0 + n / 4096, 0x80 + n / 64 % 64, 0x80 + n % 64]
  else [0xF0 + n / 262144, 0x80 + n / 4096 % 64, 0x80 + n / 64 % 64, 0x80 + n % 64]

/-- the bytes of a `String` -/
def keyBytes (s : Str) : List Nat := s.flatMap utf8

/-- lexicographic `<` on byte strings (`[u8]::cmp = Less`) -/
def bytesLt : List Nat → List Nat → Bool
  | _, [] => false
  | [], _ :: _ => true
  | a :: as, b :: bs => decide (a < b) || (a == b && bytesLt as bs)

/-- `String::cmp = Less` -/
def keyLt (a b : Str) : Bool := bytesLt (keyBytes a) (keyBytes b)

/-- `BTreeMap::insert`: replace the value of an existing key, or add the entry at its place in the order -/
def Metadata.set : Metadata → Str → Str → Metadata
  | [], k, v => [(k, v)]
  | (k', v') :: rest, k, v =>
    if k = k' then (k, v) :: rest
    else if keyLt k k' then (k, v) :: (k', v') :: rest
    else (k', v') :: Metadata.set rest k v

/-- `BTreeMap::get` -/
def Metadata.get : Metadata → Str → Option Str
  | [], _ => none
  | (k', v') :: rest, k => if k = k' then some v' else Metadata.get rest k

/-- `METADATA_PRIMARY_KEYS` -/
def primaryKeys : List Str :=
  ["Event".toList, "Site".toList, "Date".toList, "Round".toList, "White".toList, "Black".toList, "Result".toList]

def resultKey : Str := "Result".toList

/-- `GameMetadata::default()`: the seven inserts, in the order of the Rust source -/
def Metadata.default : Metadata :=
  [("Event".toList, "?".toList), ("Site".toList, "?".toList), ("Date".toList, "?".toList), ("Round".toList, "?".toList),
   ("White".toList, "Player 1".toList), ("Black".toList, "Player 2".toList), ("Result".toList, "?".toList)].foldl
    (fun m kv => Metadata.set m kv.1 kv.2) []

/-- `captures_iter(pgn).for_each(|cap| metadata.set_value(cap[1], cap[2]))`: later matches overwrite earlier ones -/
def applyTags (md : Metadata) (tags : List (Str × Str)) : Metadata :=
  tags.foldl (fun m kv => Metadata.set m kv.1 kv.2) md

/-! ### export -/

/-- the entries in the order `as_pgn` prints them: the seven primary keys in their fixed order (each is looked up,
printed and removed from a copy of the map), then what is left of the map in map order.  A primary key that is absent
makes the Rust panic (`unwrap`); the map of a `Game` always has all seven (`GameMetadata::default()` inserts them and
nothing ever removes a key), the model skips an absent one. -/
def printedEntries (md : Metadata) : List (Str × Str) :=
  primaryKeys.filterMap (fun k => (Metadata.get md k).map fun v => (k, v)) ++
  md.filter (fun kv => !primaryKeys.contains kv.1)

/-- `[Key "Value"]\n` -/
def tagLine (k v : Str) : Str := '[' :: k ++ ' ' :: '"' :: v ++ ['"', ']', '\n']

/-- the tag section printed by `as_pgn` -/
def tagsText (md : Metadata) : Str := (printedEntries md).flatMap fun kv => tagLine kv.1 kv.2

end PgnTags

open PgnTags in
/-- `as_pgn` for a game whose metadata map is `md`: the tag section, an empty line, the wrapped move text, a space and the
`Result` entry of the map (`metadata.get("Result").unwrap()`: present in every map a `Game` can have).  The model's
`g.result` is that entry; `Game.asPgn g` is this function at `Metadata.default` with `Result := g.result`
(`asPgnWith_default`). -/
def Game.asPgnWith (md : Metadata) (g : Game) : Str :=
  let res := (Metadata.get md resultKey).getD []
  let words := (splitOn ' ' g.history.render).filter (fun w => !w.isEmpty)
  tagsText md ++ ['\n'] ++ Game.joinWith ['\n'] (Game.wrapWords 85 words) ++ [' '] ++ res

open PgnTags in
/-- `Game::from_pgn` with the tag map, given the start game (`Game::default()` in the Rust; its map is
`GameMetadata::default()` with `Result` as `set_game_status` left it, i.e. `start.result`).

1. every match of the metadata pattern over the WHOLE text — the moves section included — does
   `set_value(cap[1], cap[2])`;
2. the replay (`Game.ofPgnRegex`) runs on a game whose `Result` entry is now what the tags made of it: the model's
   `result` field is that entry.  From here on the only writes to the map are those of `set_game_status`, which
   writes `Result` exactly when the status *changes* — that is `Game.setStatus`, which the replay uses; when the status
   never changes (an open game, a pending offer) the imported `Result` tag survives, whatever it says;
3. the map returned is the tag-phase map with `Result` as the replay left it. -/
def Game.ofPgnFull (U : UniClasses) (K : Keys) (start : Game) (pgn : Str) : Except Err (Game × Metadata) :=
  let md := applyTags (Metadata.set Metadata.default resultKey start.result) (findTags U pgn)
  let r := (Metadata.get md resultKey).getD start.result      -- the entry is always there
  match Game.ofPgnRegex K { start with result := r } pgn with
  | .error e => .error e
  | .ok g => .ok (g, Metadata.set md resultKey g.result)

end Chess
