import Chess.Basic
/-! M0: the declarative rules of chess, FEN-independent.  No bitboards, no caches, no shortcuts.
Legality is a filter over the move universe; `attacks` is coordinate geometry. -/
namespace Chess.Spec
open Chess

structure Rights where (k : Bool) (q : Bool) deriving DecidableEq, Repr, Inhabited
def Rights.has (r : Rights) : Side → Bool | .king => r.k | .queen => r.q

structure Pos where
  board  : Sq → Option Piece
  stm    : Color
  rights : Color → Rights
  ep     : Option Sq
  half   : Nat
  full   : Nat


def fwd : Color → Int | .white => 1 | .black => -1
def homeRank : Color → Int | .white => 0 | .black => 7
def pawnRank : Color → Int | .white => 1 | .black => 6
def lastRank : Color → Int | .white => 7 | .black => 0

/-- `c` lies strictly inside the segment `a`–`b` (same rank, file or diagonal). -/
def strictlyBetween (a c b : Sq) : Bool :=
  let dr := b.rank - a.rank; let df := b.file - a.file
  let er := c.rank - a.rank; let ef := c.file - a.file
  (dr == 0 || df == 0 || dr.natAbs == df.natAbs) && a != b &&
  -- c = a + t·(b-a) with 0 < t < 1  ⇔  cross product 0, same direction, strictly shorter
  (er * df == ef * dr) && (er * dr + ef * df > 0) && (er.natAbs + ef.natAbs < dr.natAbs + df.natAbs)

def clearBetween (bd : Sq → Option Piece) (a b : Sq) : Bool :=
  allSq.all fun c => !strictlyBetween a c b || (bd c).isNone

def orthogonal (a b : Sq) : Bool := a != b && (a.rank == b.rank || a.file == b.file)
def diagonal (a b : Sq) : Bool := a != b && ((b.rank - a.rank).natAbs == (b.file - a.file).natAbs)

/-- The man on `a` attacks square `t` (movement geometry, intermediate squares empty; the content of `t` is irrelevant). -/
def attacks (bd : Sq → Option Piece) (a t : Sq) : Bool :=
  match bd a with
  | none => false
  | some p =>
    let dr := t.rank - a.rank; let df := t.file - a.file
    match p.pt with
    | .knight => (dr.natAbs == 1 && df.natAbs == 2) || (dr.natAbs == 2 && df.natAbs == 1)
    | .king   => a != t && dr.natAbs ≤ 1 && df.natAbs ≤ 1
    | .rook   => orthogonal a t && clearBetween bd a t
    | .bishop => diagonal a t && clearBetween bd a t
    | .queen  => (orthogonal a t || diagonal a t) && clearBetween bd a t
    | .pawn   => dr == fwd p.c && df.natAbs == 1

def kingSq? (bd : Sq → Option Piece) (c : Color) : Option Sq :=
  allSq.find? fun s => bd s == some ⟨.king, c⟩

def attackedBy (bd : Sq → Option Piece) (c : Color) (t : Sq) : Bool :=
  allSq.any fun a => (match bd a with | some p => p.c == c | none => false) && attacks bd a t

def inCheck (bd : Sq → Option Piece) (c : Color) : Bool :=
  match kingSq? bd c with
  | some k => attackedBy bd c.other k
  | none => false

def upd (bd : Sq → Option Piece) (s : Sq) (v : Option Piece) : Sq → Option Piece :=
  fun x => if x = s then v else bd x

def homeSq (c : Color) (f : Nat) (h : f < 8 := by decide) : Sq :=
  ⟨(homeRank c).toNat * 8 + f, by cases c <;> simp [homeRank] <;> omega⟩

/-- Placement after a move (no legality assumed). -/
def applyBoard (p : Pos) : Move → (Sq → Option Piece)
  | .piece pt src dst promo =>
    let moved : Piece := ⟨promo.getD pt, p.stm⟩
    let bd1 := upd (upd p.board src none) dst (some moved)
    if pt == .pawn && p.ep == some dst then
      match mkSq? (dst.rank - fwd p.stm) dst.file with
      | some v => upd bd1 v none
      | none => bd1
    else bd1
  | .castle s =>
    let c := p.stm
    let (kf, rf, kt, rt) : Nat × Nat × Nat × Nat := match s with | .king => (4,7,6,5) | .queen => (4,0,2,3)
    let sq (f : Nat) : Sq := ⟨((homeRank c).toNat * 8 + f) % 64, Nat.mod_lt _ (by decide)⟩
    upd (upd (upd (upd p.board (sq kf) none) (sq rf) none) (sq kt) (some ⟨.king, c⟩)) (sq rt) (some ⟨.rook, c⟩)

def isCapture (p : Pos) : Move → Bool
  | .piece pt _ dst _ => (match p.board dst with | some q => q.c != p.stm | none => false) || (pt == .pawn && p.ep == some dst)
  | .castle _ => false

/-- Movement rule for a piece move, ignoring king safety. -/
def pseudo (p : Pos) (pt : PT) (src dst : Sq) (promo : Option PT) : Bool :=
  p.board src == some ⟨pt, p.stm⟩ &&
  (match p.board dst with | some q => q.c != p.stm | none => true) &&
  (match pt with
   | .pawn =>
      let dr := dst.rank - src.rank; let df := dst.file - src.file
      let f := fwd p.stm
      ((df == 0 && dr == f && (p.board dst).isNone) ||
       (df == 0 && dr == 2 * f && src.rank == pawnRank p.stm && (p.board dst).isNone &&
          (match mkSq? (src.rank + f) src.file with | some m => (p.board m).isNone | none => false)) ||
       (df.natAbs == 1 && dr == f && ((p.board dst).isSome || p.ep == some dst))) &&
      (if dst.rank == lastRank p.stm then promo == some .knight || promo == some .bishop || promo == some .rook || promo == some .queen
       else promo == none)
   | _ => attacks p.board src dst && promo == none)

def castleOk (p : Pos) (s : Side) : Bool :=
  let c := p.stm
  let sq (f : Nat) : Sq := ⟨((homeRank c).toNat * 8 + f) % 64, Nat.mod_lt _ (by decide)⟩
  (p.rights c).has s &&
  p.board (sq 4) == some ⟨.king, c⟩ &&
  (match s with
   | .king  => p.board (sq 7) == some ⟨.rook, c⟩ && (p.board (sq 5)).isNone && (p.board (sq 6)).isNone
   | .queen => p.board (sq 0) == some ⟨.rook, c⟩ && (p.board (sq 1)).isNone && (p.board (sq 2)).isNone && (p.board (sq 3)).isNone) &&
  !inCheck p.board c &&                                            -- not out of check
  !attackedBy p.board c.other (match s with | .king => sq 5 | .queen => sq 3) &&   -- not through check
  !inCheck (applyBoard p (.castle s)) c                        -- not into check (successor position)

def legal (p : Pos) : Move → Bool
  | .piece pt src dst promo => pseudo p pt src dst promo && !inCheck (applyBoard p (.piece pt src dst promo)) p.stm
  | .castle s => castleOk p s

def promos : List (Option PT) := [none, some .knight, some .bishop, some .rook, some .queen, some .king]
def pts : List PT := [.pawn, .knight, .bishop, .rook, .queen, .king]

/-- All legal moves, by filtering the whole move universe (declarative; slow on purpose). -/
def legalMoves (p : Pos) : List Move :=
  let cands : List Move := Id.run do
    let mut out : List Move := []
    for src in allSq do
      match p.board src with
      | some q =>
        if q.c == p.stm then
          for dst in allSq do
            for pr in promos do
              out := Move.piece q.pt src dst pr :: out
      | none => pure ()
    return Move.castle .king :: Move.castle .queen :: out
  cands.filter (legal p)

def dropRights (r : Rights) (k q : Bool) : Rights := ⟨r.k && !k, r.q && !q⟩

def apply (p : Pos) (m : Move) : Pos :=
  let c := p.stm; let o := c.other
  let bd := applyBoard p m
  let corner (col : Color) (f : Nat) : Sq := ⟨((homeRank col).toNat * 8 + f) % 64, Nat.mod_lt _ (by decide)⟩
  let ownR : Rights := match m with
    | .castle _ => ⟨false, false⟩
    | .piece .king _ _ _ => ⟨false, false⟩
    | .piece .rook src _ _ => dropRights (p.rights c) (src == corner c 7) (src == corner c 0)
    | _ => p.rights c
  let oppR : Rights := match m with
    | .piece _ _ dst _ => dropRights (p.rights o) (dst == corner o 7) (dst == corner o 0)
    | _ => p.rights o
  let ep : Option Sq := match m with
    | .piece .pawn src dst _ => if (dst.rank - src.rank).natAbs == 2 then mkSq? ((src.rank + dst.rank) / 2) dst.file else none
    | _ => none
  let reset : Bool := match m with | .piece pt _ _ _ => pt == .pawn || isCapture p m | _ => false
  { board := bd, stm := o,
    rights := fun x => if x = c then ownR else oppR,
    ep := ep,
    half := if reset then 0 else p.half + 1,
    full := if c = .black then p.full + 1 else p.full }



/-! ### validity (C09's list) -/
def countPiece (bd : Sq → Option Piece) (p : Piece) : Nat := allSq.countP fun s => bd s == some p

def rightsOk (p : Pos) (c : Color) : Bool :=
  let sq (f : Nat) : Sq := ⟨((homeRank c).toNat * 8 + f) % 64, Nat.mod_lt _ (by decide)⟩
  let r := p.rights c
  (!(r.k || r.q) || p.board (sq 4) == some ⟨.king, c⟩) &&
  (!r.k || p.board (sq 7) == some ⟨.rook, c⟩) &&
  (!r.q || p.board (sq 0) == some ⟨.rook, c⟩)

/-- ep square: on rank 6 (index 5) when White is to move / rank 3 (index 2) when Black is; empty;
the just-moved enemy pawn directly in front of it (from the mover's side); its origin square behind empty. -/
def epOk (p : Pos) : Bool :=
  match p.ep with
  | none => true
  | some e =>
    let o := p.stm.other
    e.rank == (if p.stm == .white then 5 else 2) &&
    (p.board e).isNone &&
    (match mkSq? (e.rank + fwd o) e.file with | some s => p.board s == some ⟨.pawn, o⟩ | none => false) &&
    (match mkSq? (e.rank - fwd o) e.file with | some s => (p.board s).isNone | none => false)

def ValidPos (p : Pos) : Bool :=
  countPiece p.board ⟨.king, .white⟩ == 1 && countPiece p.board ⟨.king, .black⟩ == 1 &&
  !inCheck p.board p.stm.other &&
  rightsOk p .white && rightsOk p .black && epOk p

/-! ### status (C04) -/
inductive Status | ongoing | checkmated (c : Color) | stalemate | insufficient | fifty
  deriving DecidableEq, Repr

def menOf (bd : Sq → Option Piece) (c : Color) : List Piece :=
  allSq.filterMap fun s => match bd s with | some q => if q.c == c then some q else none | none => none

def cannotMate (bd : Sq → Option Piece) (c : Color) : Bool :=
  match (menOf bd c).filter (fun q => q.pt != .king) with
  | [] => true
  | [q] => q.pt == .bishop || q.pt == .knight
  | _ => false

def status (p : Pos) : Status :=
  if (legalMoves p).isEmpty then (if inCheck p.board p.stm then .checkmated p.stm else .stalemate)
  else if cannotMate p.board .white && cannotMate p.board .black then .insufficient
  else if p.half ≥ 100 then .fifty
  else .ongoing

/-! ### SAN (C14): PGN standard §8.2.3 -/
def ptLetter : PT → String | .pawn => "" | .knight => "N" | .bishop => "B" | .rook => "R" | .queen => "Q" | .king => "K"
def fileCh (s : Sq) : Char := Char.ofNat ('a'.toNat + s.val % 8)
def rankCh (s : Sq) : Char := Char.ofNat ('1'.toNat + s.val / 8)
def sqStr (s : Sq) : String := String.ofList [fileCh s, rankCh s]

inductive Disamb | none | file | rank | both deriving DecidableEq, Repr

/-- other legal moves of the same piece type to the same destination -/
def rivals (p : Pos) (pt : PT) (src dst : Sq) : List Sq :=
  allSq.filter fun s => s != src && legal p (.piece pt s dst none)

def disamb (p : Pos) (pt : PT) (src dst : Sq) : Disamb :=
  match pt with
  | .pawn => if src.file != dst.file then .file else .none
  | .king => .none
  | _ =>
    let rs := rivals p pt src dst
    if rs.isEmpty then .none
    else if rs.all (fun s => s.file != src.file) then .file
    else if rs.all (fun s => s.rank != src.rank) then .rank
    else .both

def suffix (p : Pos) (m : Move) : String :=
  let q := apply p m
  if inCheck q.board q.stm then (if (legalMoves q).isEmpty then "#" else "+") else ""

def san (p : Pos) (m : Move) : String :=
  match m with
  | .castle .king => "O-O" ++ suffix p m
  | .castle .queen => "O-O-O" ++ suffix p m
  | .piece pt src dst promo =>
    ptLetter pt ++
    (match disamb p pt src dst with
     | .none => "" | .file => String.ofList [fileCh src] | .rank => String.ofList [rankCh src] | .both => sqStr src) ++
    (if isCapture p m then "x" else "") ++ sqStr dst ++
    (match promo with | some x => "=" ++ ptLetter x | none => "") ++ suffix p m

/-! ### game protocol (C12) -/
inductive GStatus | ongoing | drawOffered (c : Color) | checkmated (c : Color) | resigned (c : Color)
  | fifty | insufficient | repetition | drawAccepted | stalemate
  deriving DecidableEq, Repr
inductive Action | move (m : Move) | offer (c : Color) | accept | decline | resign (c : Color)
inductive GErr | illegalAction | finished deriving DecidableEq, Repr

def GStatus.terminal : GStatus → Bool | .ongoing => false | .drawOffered _ => false | _ => true

def tagOf : GStatus → String
  | .ongoing | .drawOffered _ => "?"
  | .checkmated .white | .resigned .white => "0-1"
  | .checkmated .black | .resigned .black => "1-0"
  | _ => "1/2-1/2"

structure GState where
  start : Pos
  later : List Pos           -- one position per accepted move, oldest first
  moves : List Move          -- accepted moves, oldest first
  status : GStatus

def posAfter (g : GState) : Pos := (g.later.getLast?).getD g.start
def history (g : GState) : List Pos := g.start :: g.later

def sameKey (p q : Pos) : Bool :=
  allSq.all (fun s => p.board s == q.board s) && p.stm == q.stm &&
  p.rights .white == q.rights .white && p.rights .black == q.rights .black && p.ep == q.ep

def occurrences (g : GState) : Nat := (history g).countP (sameKey (posAfter g))

def afterMoveStatus (g : GState) : GStatus :=
  match status (posAfter g) with
  | .checkmated c => .checkmated c | .stalemate => .stalemate | .insufficient => .insufficient | .fifty => .fifty
  | .ongoing => if occurrences g ≥ 3 then .repetition else .ongoing

def init (p : Pos) : GState := let g : GState := ⟨p, [], [], .ongoing⟩; { g with status := afterMoveStatus g }

def step (g : GState) (a : Action) : Except GErr GState :=
  match g.status with
  | .ongoing =>
    match a with
    | .move m => if legal (posAfter g) m then
                   let g' := { g with moves := g.moves ++ [m], later := g.later ++ [apply (posAfter g) m] }
                   .ok { g' with status := afterMoveStatus g' }
                 else .error .illegalAction
    | .offer c => .ok { g with status := .drawOffered c }
    | .resign c => .ok { g with status := .resigned c }
    | .accept | .decline => .error .illegalAction
  | .drawOffered _ =>
    match a with
    | .accept => .ok { g with status := .drawAccepted }
    | .decline => .ok { g with status := .ongoing }
    | .resign c => .ok { g with status := .resigned c }
    | .move _ | .offer _ => .error .illegalAction
  | _ => .error .finished



/-! ### check and pin sets (C05) -/
def isColor (bd : Sq → Option Piece) (c : Color) (s : Sq) : Bool :=
  match bd s with | some q => q.c == c | none => false

/-- enemy men attacking the king of the side to move -/
def checkers (p : Pos) : List Sq :=
  match kingSq? p.board p.stm with
  | some k => allSq.filter fun a => isColor p.board p.stm.other a && attacks p.board a k
  | none => []

/-- the enemy man on `a` is a rook, bishop or queen whose line of movement passes through `k` -/
def sliderLine (bd : Sq → Option Piece) (a k : Sq) : Bool :=
  match bd a with
  | some q => (match q.pt with
      | .rook => orthogonal a k | .bishop => diagonal a k | .queen => orthogonal a k || diagonal a k | _ => false)
  | none => false

/-- own men standing alone between their king and an enemy rook, bishop or queen attacking along that line -/
def pinnedSet (p : Pos) : List Sq :=
  match kingSq? p.board p.stm with
  | some k => allSq.filter fun s =>
      isColor p.board p.stm s &&
      allSq.any fun a =>
        isColor p.board p.stm.other a && sliderLine p.board a k && strictlyBetween a s k &&
        allSq.all fun c => !strictlyBetween a c k || c == s || (p.board c).isNone
  | none => []

/-! ### flags of a move (C13) -/
def givesCheck (p : Pos) (m : Move) : Bool := let q := apply p m; inCheck q.board q.stm
def givesMate (p : Pos) (m : Move) : Bool := let q := apply p m; inCheck q.board q.stm && (legalMoves q).isEmpty

end Chess.Spec
