import Chess.Basic
/-! # FenSpec — an independent, strict reader of standard FEN (PGN specification §16.1)

This file is a SPECIFICATION: it is written from the standard, it does not mention the model's printer
or parser (`Chess/Model/Text.lean`), and it imports only the shared vocabulary `Chess/Basic.lean`.

A FEN record is one line of six fields separated by single spaces:
1. piece placement: eight ranks separated by `/`, rank 8 first; inside a rank, files a→h; a piece letter
   (`PNBRQK` white, `pnbrqk` black) is a man, a digit `1`–`8` is that many empty squares; two digits are
   never adjacent; every rank describes exactly eight squares;
2. active colour: `w` or `b`;
3. castling availability: `-`, or a non-empty selection of the letters `KQkq` in that order;
4. en-passant target square: `-`, or a square written file letter `a`–`h` then rank digit `1`–`8`;
5. halfmove clock and 6. fullmove number: decimal, no sign, no superfluous leading zero.

`read` accepts exactly these texts and returns what they mean. -/
namespace Chess.FenSpec
open Chess

/-- the meaning of a FEN record -/
structure FenRecord where
  placement : Sq → Option Piece
  stm : Color
  castleK : Bool
  castleQ : Bool
  castlek : Bool
  castleq : Bool
  ep : Option Sq
  half : Nat
  full : Nat

/-! ### fields -/

/-- the pieces of `s` between the occurrences of `sep` (always at least one piece, possibly empty ones) -/
def fields (sep : Char) : List Char → List (List Char)
  | [] => [[]]
  | c :: cs =>
    if c = sep then [] :: fields sep cs
    else match fields sep cs with
      | p :: ps => (c :: p) :: ps
      | [] => [[c]]

/-! ### field 1: piece placement -/

def pieceOfChar : Char → Option Piece
  | 'P' => some ⟨.pawn, .white⟩ | 'N' => some ⟨.knight, .white⟩ | 'B' => some ⟨.bishop, .white⟩
  | 'R' => some ⟨.rook, .white⟩ | 'Q' => some ⟨.queen, .white⟩ | 'K' => some ⟨.king, .white⟩
  | 'p' => some ⟨.pawn, .black⟩ | 'n' => some ⟨.knight, .black⟩ | 'b' => some ⟨.bishop, .black⟩
  | 'r' => some ⟨.rook, .black⟩ | 'q' => some ⟨.queen, .black⟩ | 'k' => some ⟨.king, .black⟩
  | _ => none

/-- a digit `1`–`8`: that many empty squares -/
def emptyRun : Char → Option Nat
  | '1' => some 1 | '2' => some 2 | '3' => some 3 | '4' => some 4
  | '5' => some 5 | '6' => some 6 | '7' => some 7 | '8' => some 8
  | _ => none

/-- the squares a rank text describes, file a first.  `afterDigit` tells that the previous character
was a digit: a second digit is then rejected. -/
def readCells (afterDigit : Bool) : List Char → Option (List (Option Piece))
  | [] => some []
  | c :: cs =>
    match pieceOfChar c with
    | some p => (readCells false cs).map (some p :: ·)
    | none =>
      match emptyRun c with
      | some n => if afterDigit then none else (readCells true cs).map (List.replicate n none ++ ·)
      | none => none

/-- one rank: exactly eight squares -/
def readRank (s : List Char) : Option (List (Option Piece)) :=
  match readCells false s with
  | some cells => if cells.length = 8 then some cells else none
  | none => none

/-- eight ranks separated by `/`, rank 8 first; square index = 8·rank + file -/
def readPlacement (s : List Char) : Option (Sq → Option Piece) :=
  match (fields '/' s).mapM readRank with
  | some rows =>
    if rows.length = 8 then some fun sq => (rows.getD (7 - sq.val / 8) []).getD (sq.val % 8) none
    else none
  | none => none

/-! ### field 2: active colour -/

def readSide : List Char → Option Color
  | ['w'] => some .white
  | ['b'] => some .black
  | _ => none

/-! ### field 3: castling availability -/

/-- take the letter `c` off the front if it is there -/
def eat (c : Char) : List Char → Bool × List Char
  | [] => (false, [])
  | x :: xs => if x = c then (true, xs) else (false, x :: xs)

/-- `-`, or at least one of `K`, `Q`, `k`, `q`, each at most once, in this order -/
def readCastling (s : List Char) : Option (Bool × Bool × Bool × Bool) :=
  if s = ['-'] then some (false, false, false, false) else
  let (wk, s1) := eat 'K' s
  let (wq, s2) := eat 'Q' s1
  let (bk, s3) := eat 'k' s2
  let (bq, s4) := eat 'q' s3
  if s4 = [] ∧ (wk || wq || bk || bq) = true then some (wk, wq, bk, bq) else none

/-! ### field 4: en-passant target square -/

def fileOfChar : Char → Option (Fin 8)
  | 'a' => some 0 | 'b' => some 1 | 'c' => some 2 | 'd' => some 3
  | 'e' => some 4 | 'f' => some 5 | 'g' => some 6 | 'h' => some 7
  | _ => none

def rankOfChar : Char → Option (Fin 8)
  | '1' => some 0 | '2' => some 1 | '3' => some 2 | '4' => some 3
  | '5' => some 4 | '6' => some 5 | '7' => some 6 | '8' => some 7
  | _ => none

def readEp : List Char → Option (Option Sq)
  | ['-'] => some none
  | [f, r] =>
    match fileOfChar f, rankOfChar r with
    | some f, some r => some (some ⟨8 * r.val + f.val, by omega⟩)
    | _, _ => none
  | _ => none

/-! ### fields 5 and 6: the clocks -/

def digitVal : Char → Option Nat
  | '0' => some 0 | '1' => some 1 | '2' => some 2 | '3' => some 3 | '4' => some 4
  | '5' => some 5 | '6' => some 6 | '7' => some 7 | '8' => some 8 | '9' => some 9
  | _ => none

/-- the value of a string of decimal digits, most significant first, continuing from `acc` -/
def readDigits (acc : Nat) : List Char → Option Nat
  | [] => some acc
  | c :: cs =>
    match digitVal c with
    | some d => readDigits (10 * acc + d) cs
    | none => none

/-- `0`, or a non-empty digit string that does not start with `0` -/
def readNumber (s : List Char) : Option Nat :=
  if s = [] then none
  else if s = ['0'] then some 0
  else if s.head? = some '0' then none
  else readDigits 0 s

/-! ### the record -/

/-- the strict reader of standard FEN -/
def read (s : List Char) : Option FenRecord :=
  match fields ' ' s with
  | [f1, f2, f3, f4, f5, f6] =>
    match readPlacement f1, readSide f2, readCastling f3, readEp f4, readNumber f5, readNumber f6 with
    | some placement, some stm, some (wk, wq, bk, bq), some ep, some half, some full =>
      some { placement := placement, stm := stm, castleK := wk, castleQ := wq, castlek := bk, castleq := bq,
             ep := ep, half := half, full := full }
    | _, _, _, _, _, _ => none
  | _ => none

/-! ### sanity checks of the specification itself -/

private def ok (s : String) : Bool := (read s.toList).isSome

-- accepted
example : ok "rnbqkbnr/pppppppp/8/8/8/8/PPPPPPPP/RNBQKBNR w KQkq - 0 1" = true := by decide
example : ok "rnbqkbnr/pp1ppppp/8/2p5/4P3/5N2/PPPP1PPP/RNBQKB1R b Kq c6 10 102" = true := by decide
example : ok "8/8/8/8/8/8/8/8 w - - 0 0" = true := by decide
-- the meaning: a1 = index 0, h8 = index 63, e3 = index 20
example : ((read "7k/8/8/8/8/8/8/R7 b Qk e3 12 34".toList).map fun r =>
    (r.placement 0, r.placement 63, r.placement 7, r.stm, r.castleK, r.castleQ, r.castlek, r.castleq, r.ep, r.half, r.full)) =
    some (some ⟨.rook, .white⟩, some ⟨.king, .black⟩, none, .black, false, true, true, false, some 20, 12, 34) := by
  rfl
-- rejected: adjacent digits, short / long rank, seven / nine ranks, bad letters
example : ok "rnbqkbnr/pppppppp/44/8/8/8/PPPPPPPP/RNBQKBNR w KQkq - 0 1" = false := by decide
example : ok "rnbqkbnr/pppppppp/7/8/8/8/PPPPPPPP/RNBQKBNR w KQkq - 0 1" = false := by decide
example : ok "rnbqkbnr/pppppppp/8p/8/8/8/PPPPPPPP/RNBQKBNR w KQkq - 0 1" = false := by decide
example : ok "rnbqkbnr/pppppppp/8/8/8/PPPPPPPP/RNBQKBNR w KQkq - 0 1" = false := by decide
example : ok "rnbqkbnr/pppppppp/8/8/8/8/8/PPPPPPPP/RNBQKBNR w KQkq - 0 1" = false := by decide
example : ok "rnbqkbnr/pppppppp/9/8/8/8/PPPPPPPP/RNBQKBNR w KQkq - 0 1" = false := by decide
example : ok "rnbqkbnr/pppppppp/0/8/8/8/PPPPPPPP/RNBQKBNR w KQkq - 0 1" = false := by decide
example : ok "rnbqkbnr/pppxpppp/8/8/8/8/PPPPPPPP/RNBQKBNR w KQkq - 0 1" = false := by decide
-- rejected: side, castling order / repetition / emptiness, en-passant square, numbers, spacing, field count
example : ok "8/8/8/8/8/8/8/8 W - - 0 1" = false := by decide
example : ok "8/8/8/8/8/8/8/8 w kqKQ - 0 1" = false := by decide
example : ok "8/8/8/8/8/8/8/8 w KK - 0 1" = false := by decide
example : ok "8/8/8/8/8/8/8/8 w  - 0 1" = false := by decide
example : ok "8/8/8/8/8/8/8/8 w K- - 0 1" = false := by decide
example : ok "8/8/8/8/8/8/8/8 w - 3e 0 1" = false := by decide
example : ok "8/8/8/8/8/8/8/8 w - e9 0 1" = false := by decide
example : ok "8/8/8/8/8/8/8/8 w - E3 0 1" = false := by decide
example : ok "8/8/8/8/8/8/8/8 w - - 00 1" = false := by decide
example : ok "8/8/8/8/8/8/8/8 w - - 0 01" = false := by decide
example : ok "8/8/8/8/8/8/8/8 w - - +0 1" = false := by decide
example : ok "8/8/8/8/8/8/8/8 w - -  1" = false := by decide
example : ok "8/8/8/8/8/8/8/8 w - - 0" = false := by decide
example : ok "8/8/8/8/8/8/8/8 w - - 0 1 " = false := by decide
example : ok " 8/8/8/8/8/8/8/8 w - - 0 1" = false := by decide
example : ok "8/8/8/8/8/8/8/8  w - - 0 1" = false := by decide

end Chess.FenSpec
