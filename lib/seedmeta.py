#!/usr/bin/env python3
"""Write seeded/<id>/meta.json from seeded/<id>/{confirm.json,detect.json,notes.md} and the table below."""
import json, os, sys
NEEDS = {
 'C01-a': ('C01', 'castling path attack test ignores the enemy king: enemy king sole attacker of f1/g1 (d1/c1) with the right held'),
 'C02-a': ('C02', 'pawn capture-promotion onto a1/h1/a8/h8 while the opponent still holds the right of that corner'),
 'C03-a': ('C03', 'en passant available, not in check, capturing pawn not pinned, own king on the rank of the two pawns with an enemy rook/queen behind them: is_legal_move accepts, get_legal_moves does not list'),
 'C04-a': ('C04', 'side to move not in check whose only candidate move is an en-passant capture made illegal by the rank discovery, no other legal move (stalemate reported as ongoing)'),
 'C05-a': ('C05', 'four-piece alignment: own king, exactly one own piece, at least one enemy piece, enemy slider of the matching type (screened piece reported pinned)'),
 'C06-a': ('C06', 'a king captures a never-moved rook on its home corner while the owner still holds that right (multi-step history)'),
 'C07-a': ('C07', 'one colour holds exactly one castling right (rook left/captured on its corner before the king moved, or FEN with partial rights): incremental hash != from-scratch hash'),
 'C08-a': ('C08', 'one colour holds castling rights on exactly one wing: as_fen prints the other wing'),
 'C09-a': ('C09', 'ep square with the mover\'s own piece on the ep square or on the origin square behind it is accepted'),
 'C10-a': ('C10', 'PGN whose moves end in a declared draw (repetition/fifty/insufficient) followed by a result token: from_pgn panics'),
 'C11-a': ('C11', 'draw offer made and declined, then the position recurs: counter one too high, repetition declared early'),
 'C12-a': ('C12', 'third occurrence lands exactly on the ply where the half-move clock reaches 100: repetition reported instead of fifty-move'),
 'C13-a': ('C13', 'double pawn push followed at once by a non-pawn move onto the skipped square: history records a capture'),
 'C14-a': ('C14', 'pinned slider that can still move along its pin ray plus an unpinned same-type piece reaching the same square: disambiguation omitted'),
 'C15-a': ('C15', 'three same-type pieces (under-promotion) with a rival on the file and another on the rank: exported token with file+rank source is not re-importable'),
 'C16-a': ('C16', 'pawn promotions whose origin is on the b-file (`b7b8=Q`): printed text no longer parses (2,560 of 147,456 values)'),
 'C17-a': ('C17', 'pawn single-push and capture table entries for pawns standing on rank 1 (white) / rank 8 (black) left blank'),
 'C18-a': ('C18', 'Square::left/right on the a-/h-file wrap to the neighbouring rank instead of failing'),
 'C19-a': ('C19', 'Black to move, king on h8, white pawn on g7: check not seen (two cooperating sites: table range excludes H8, new table lookup for pawn attackers)'),
 'C20-a': ('C20', 'one colour holds exactly one castling right: render header names the other wing'),
}
for sid, (prop, needs) in NEEDS.items():
    d = f'/verif/seeded/{sid}'
    if not os.path.isdir(d):
        continue
    conf = json.load(open(f'{d}/confirm.json')) if os.path.exists(f'{d}/confirm.json') else {}
    det = json.load(open(f'{d}/detect.json')) if os.path.exists(f'{d}/detect.json') else {}
    meta = dict(id=sid, breaks_property=prop, needs_to_manifest=needs,
                source='written by an independent sub-agent that saw only the property text and a scratch worktree of /repo (nothing from /verif)',
                confirmed_by_me=conf.get('confirmed'),
                what_i_ran=(conf.get('ran') or []) + [f'python3 lib/seedrun.py {sid} <props>  (git -C /repo apply patch.diff; ./check <prop> --tier quick; git -C /repo checkout -- .)'],
                confirmation=dict(original_demo=conf.get('original_demo'), mutated_lib=conf.get('mutated_lib'), mutated_doc=conf.get('mutated_doc'), mutated_demo=conf.get('mutated_demo')),
                detected_by=det.get('detected_by'),
                checks_run={k: dict(rc=v['rc'], violation_lines=v['n_violation_lines']) for k, v in det.get('results', {}).items()})
    json.dump(meta, open(f'{d}/meta.json', 'w'), indent=1)
    print(sid, prop, 'confirmed' if conf.get('confirmed') else 'UNCONFIRMED', 'detected by', det.get('detected_by'))
