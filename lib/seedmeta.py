#!/usr/bin/env python3
"""Write seeded/<id>/meta.json from seeded/<id>/{confirm.json,detect.json,notes.md} and the table below."""
import json, os, sys
NEEDS = {
 'C01-a': ('C01', 'castling path attack test ignores the enemy king: enemy king sole attacker of f1/g1 (d1/c1) with the right held'),
 'C02-a': ('C02', 'pawn capture-promotion onto a1/h1/a8/h8 while the opponent still holds the right of that corner'),
 'C03-a': ('C03', 'en passant available, not in check, capturing pawn not pinned, own king on the rank of the two pawns with an enemy rook/queen behind them: is_legal_move accepts, get_legal_moves does not list'),
 'C04-a': ('C04', 'side to move not in check whose only candidate move is an en-passant capture made illegal by the rank discovery, no other legal move (stalemate reported as ongoing)'),
 'C05-a': ('C05', 'four-piece alignment: own king, exactly one own piece, at least one enemy piece, enemy slider of the matching type (screened piece reported pinned)'),
 'C06-a': ('C06', 'a king captures a never-moved rook on its home corner while the owner still holds that right (multi-step history)'),
 'C07-a': ('C07', 'one colour holds exactly one castling right (rook left/captured on its corner before the king moved, or FEN with partial rights): incremental hash != from-scratch hash'),
 'C08-a': ('C08', 'one colour holds castling rights on exactly one wing: as_fen prints the other wing'),
 'C09-a': ('C09', 'ep square with the mover\'s own piece on the ep square or on the origin square behind it is accepted'),
 'C10-a': ('C10', 'PGN whose moves end in a declared draw (repetition/fifty/insufficient) followed by a result token: from_pgn panics'),
 'C11-a': ('C11', 'draw offer made and declined, then the position recurs: counter one too high, repetition declared early'),
 'C12-a': ('C12', 'third occurrence lands exactly on the ply where the half-move clock reaches 100: repetition reported instead of fifty-move'),
 'C13-a': ('C13', 'double pawn push followed at once by a non-pawn move onto the skipped square: history records a capture'),
 'C14-a': ('C14', 'pinned slider that can still move along its pin ray plus an unpinned same-type piece reaching the same square: disambiguation omitted'),
 'C15-a': ('C15', 'three same-type pieces (under-promotion) with a rival on the file and another on the rank: exported token with file+rank source is not re-importable'),
 'C16-a': ('C16', 'pawn promotions whose origin is on the b-file (`b7b8=Q`): printed text no longer parses (2,560 of 147,456 values)'),
 'C17-a': ('C17', 'pawn single-push and capture table entries for pawns standing on rank 1 (white) / rank 8 (black) left blank'),
 'C18-a': ('C18', 'Square::left/right on the a-/h-file wrap to the neighbouring rank instead of failing'),
 'C19-a': ('C19', 'Black to move, king on h8, white pawn on g7: check not seen (two cooperating sites: table range excludes H8, new table lookup for pawn attackers)'),
 'C20-a': ('C20', 'one colour holds exactly one castling right: render header names the other wing'),
 'C01-b': ('C01', 'en passant available, captured pawn is the sole blocker on a DIAGONAL between the mover\'s king and an enemy bishop/queen, king not on the pawns\' rank, not in check, capturing pawn not pinned (FEN/setup position): illegal capture listed as legal'),
 'C02-b': ('C02', 'castling moves neither increment nor reset the half-move clock (clock update moved into the piece-move arm)'),
 'C03-b': ('C03', 'side to move not in check and every legal move belongs to a pinned piece: terminal flag wrongly set, is_legal_move rejects all moves that get_legal_moves lists'),
 'C04-b': ('C04', 'terminal position (stalemate/mate) in which each side has a lone king or king + one minor: reported as insufficient-material draw (precedence swapped)'),
 'C05-b': ('C05', 'between-table entry of the pair a1-h8 wrong (step rule ambiguous for difference 63): king on a1/h8 with enemy bishop/queen on the opposite corner'),
 'C06-b': ('C06', 'shared legality fast path narrowed for en passant: capture uncovering a diagonal attack accepted, side that just moved left in check (FEN/setup start)'),
 'C07-b': ('C07', 'promotion onto an EMPTY square hashes the pawn key instead of the promoted piece key (quiet-move fast path in move_piece)'),
 'C08-b': ('C08', 'en-passant capture played in the history: victim removed from the masks without its hash key, so from_fen(as_fen) has another hash'),
 'C09-b': ('C09', 'both castling rights granted, king and h-rook at home, no rook on a1/a8: accepted (else-if in the required-rook mask)'),
 'C10-b': ('C10', 'exactly two kings, both of one colour, kingless side to move: from_fen panics before validation'),
 'C11-b': ('C11', 'castling key rows of White and Black identical ([expr; N] copies): positions differing only in symmetric rights share a counter slot'),
 'C12-b': ('C12', 'game constructed from an already finished start position keeps the default Result tag `?`'),
 'C13-b': ('C13', 'castling that gives check or mate recorded with check/mate flags false (early return for castling in MovePropertiesOnBoard::new)'),
 'C14-b': ('C14', 'side to move has exactly one pawn and it captures: origin file omitted (`xd5`)'),
 'C15-b': ('C15', 'export wraps with textwrap::fill defaults: a castling token crossing column 85 is split at its hyphen, export not re-importable'),
 'C16-b': ('C16', 'printer drops the promotion suffix of non-pawn moves (102,400 of 147,458 values)'),
 'C17-b': ('C17', 'between-table entry of the single pair a1-h8 wrong (stride 7 vs 9 ambiguity for index difference 63): slider or king on a1/h8 facing the opposite corner'),
 'C18-b': ('C18', 'Square::new(64) accepted (> instead of >=)'),
 'C19-b': ('C19', 'is_theoretical_draw: Black\'s minor-piece test intersects the occupancy instead of Black\'s mask: White K+minor vs Black K+R/Q/P reported insufficient, the colour-flipped position ongoing'),
 'C20-b': ('C20', 'render_flipped blanks rank rows when the lower ranks are empty (orientation assumption of an endgame shortcut)'),
}
for sid, (prop, needs) in NEEDS.items():
    d = f'/verif/seeded/{sid}'
    if not os.path.isdir(d):
        continue
    conf = json.load(open(f'{d}/confirm.json')) if os.path.exists(f'{d}/confirm.json') else {}
    det = json.load(open(f'{d}/detect.json')) if os.path.exists(f'{d}/detect.json') else {}
    meta = dict(id=sid, breaks_property=prop, needs_to_manifest=needs,
                source='written by an independent sub-agent that saw only the property text and a scratch worktree of /repo (nothing from /verif)',
                confirmed_by_me=conf.get('confirmed'),
                what_i_ran=(conf.get('ran') or []) + [f'python3 lib/seedrun.py {sid} <props>  (git -C /repo apply patch.diff; ./check <prop> --tier quick; git -C /repo checkout -- .)'],
                confirmation=dict(original_demo=conf.get('original_demo'), mutated_lib=conf.get('mutated_lib'), mutated_doc=conf.get('mutated_doc'), mutated_demo=conf.get('mutated_demo')),
                detected_by=det.get('detected_by'),
                checks_run={k: dict(rc=v['rc'], violation_lines=v['n_violation_lines']) for k, v in det.get('results', {}).items()})
    json.dump(meta, open(f'{d}/meta.json', 'w'), indent=1)
    print(sid, prop, 'confirmed' if conf.get('confirmed') else 'UNCONFIRMED', 'detected by', det.get('detected_by'))
