#!/usr/bin/env python3
"""Regenerate the proof-state table of DESIGN.md section 0 from chess/Chess/Props/registry.json (between the table header and the
paragraph that follows it)."""
import json, re
r = json.load(open('/verif/chess/Chess/Props/registry.json'))
rows = []
for i in range(1, 21):
    k = f'C{i:02d}'
    e = r[k]
    th = e['theorems']
    names = ', '.join('`' + t.split('.')[-1] + '`' for t in th[:6])
    rows.append(f"| {k} | {names}{' …' if len(th) > 6 else ''} ({len(th)} audited) | {' '.join(e.get('summary', []))} | {'; '.join(e.get('partial', [])) or '—'} |")
p = '/verif/DESIGN.md'
s = open(p).read()
head = '| id | theorems (first six; all in `Props/registry.json`) | what is proved | left open / hypothesis carried |\n|---|---|---|---|\n'
a = s.index(head) + len(head)
b = s.index('\n\n', a)
s = s[:a] + '\n'.join(rows) + s[b:]
open(p, 'w').write(s)
print('table regenerated:', len(rows), 'rows')
