#!/usr/bin/env python3
"""mutate.py gen <n> [seed]      — write n single-line mutants of /repo/src (outside #[cfg(test)] modules, comments and doc lines)
                                   to /verif/mutants/M<k>/{patch.diff,meta.json}
   mutate.py filter [--slots N]  — for every mutant without a verdict: does it compile, and does the UNEDITED suite
                                   (cargo test --lib, --doc) still pass?  meta.json gets `compiles`, `survives_tests`.
   mutate.py report              — table: operator / file / killed by tests / detected by which checks / undetected

A systematic complement to the hand-made seeded changes: the mutants that survive the repository's own tests are then run
through every quick check by lib/matrix.py (`python3 lib/matrix.py $(python3 lib/mutate.py survivors)`).
Undetected survivors are triaged by hand in DESIGN.md (equivalent mutant / outside every property / generator gap)."""
import sys, os, re, json, random, subprocess, shutil, threading, queue, glob

REPO = '/repo'
OUT = '/verif/mutants'

# (name, regex, replacement) — applied to one occurrence on one line
OPS = [
    ('eq->ne', r'==', '!='), ('ne->eq', r'!=', '=='),
    ('lt->le', r'(?<![<\-=])<(?![<=])', '<='), ('le->lt', r'<=', '<'),
    ('gt->ge', r'(?<![>\-=])>(?![>=])', '>='), ('ge->gt', r'>=', '>'),
    ('and->or', r'&&', '||'), ('or->and', r'\|\|', '&&'),
    ('band->bor', r'(?<![&])&(?![&=])(?=\s)', '|'), ('bor->band', r'(?<![|])\|(?![|=])(?=\s)', '&'),
    ('xor_assign->or_assign', r'\^=', '|='), ('or_assign->xor_assign', r'\|=', '^='), ('and_assign->or_assign', r'&=', '|='),
    ('plus->minus', r'(?<![+\-=])\+(?![+=])', '-'), ('minus->plus', r'(?<![\-=>])-(?![\-=>])', '+'),
    ('shl->shr', r'<<', '>>'), ('shr->shl', r'>>', '<<'),
    ('true->false', r'\btrue\b', 'false'), ('false->true', r'\bfalse\b', 'true'),
    ('white->black', r'\bWhite\b', 'Black'), ('black->white', r'\bBlack\b', 'White'),
    ('up->down', r'\.up\(\)', '.down()'), ('down->up', r'\.down\(\)', '.up()'),
    ('left->right', r'\.left\(\)', '.right()'), ('right->left', r'\.right\(\)', '.left()'),
    ('kingside->queenside', r'\bKingSide\b', 'QueenSide'), ('queenside->kingside', r'\bQueenSide\b', 'KingSide'),
    ('first->last_bit', r'first_bit_square', 'last_bit_square'), ('last->first_bit', r'last_bit_square', 'first_bit_square'),
    ('not-removed', r'!(?=[a-zA-Z_(])', ''),
    ('is_some->is_none', r'\.is_some\(\)', '.is_none()'), ('is_none->is_some', r'\.is_none\(\)', '.is_some()'),
    ('num+1', r'(?<![\w.])(\d+)(?![\w.])', lambda m: str(int(m.group(1)) + 1)),
    ('num-1', r'(?<![\w.])([1-9]\d*)(?![\w.])', lambda m: str(int(m.group(1)) - 1)),
    ('file A->H', r'\bFile::A\b', 'File::H'), ('file H->A', r'\bFile::H\b', 'File::A'),
    ('rook->bishop', r'\bRook\b', 'Bishop'), ('bishop->rook', r'\bBishop\b', 'Rook'),
    ('queen->rook', r'\bQueen\b', 'Rook'), ('knight->bishop', r'\bKnight\b', 'Bishop'), ('pawn->knight', r'\bPawn\b', 'Knight'),
    ('delete-stmt', None, None),
]


def candidate_lines(path):
    lines = open(path).read().split('\n')
    test_from = next((i for i, l in enumerate(lines) if l.strip() == '#[cfg(test)]'), len(lines))
    out = []
    for i, l in enumerate(lines[:test_from]):
        s = l.strip()
        if not s or s.startswith('//') or s.startswith('#[') or s.startswith('use ') or s.startswith('pub use ') or s.startswith('///'):
            continue
        code = l.split('//')[0]
        out.append((i, code))
    return lines, out


def gen(n, seed):
    rng = random.Random(seed)
    files = sorted(glob.glob(os.path.join(REPO, 'src', '**', '*.rs'), recursive=True))
    files = [f for f in files if not f.endswith('lib.rs') and not f.endswith('errors.rs')]
    pool = []
    for f in files:
        lines, cands = candidate_lines(f)
        for (i, code) in cands:
            for (name, rx, rep) in OPS:
                if name == 'delete-stmt':
                    s = code.strip()
                    if s.endswith(';') and re.search(r'(\^=|\|=|&=|\bself\.\w+\s*=|\.set_|\.update_|\.put_piece|\.clear_square|\.move_piece|\.push\(|insert\()', s) and 'let ' not in s and 'return' not in s:
                        pool.append((f, i, name, None))
                    continue
                for m in re.finditer(rx, code):
                    if '"' in code[:m.start()] and code[:m.start()].count('"') % 2 == 1:
                        continue       # inside a string literal
                    pool.append((f, i, name, m.start()))
    # stratify: equal chance per operator class first, then per site
    byop = {}
    for p in pool:
        byop.setdefault(p[2], []).append(p)
    print('sites per operator:', {k: len(v) for k, v in sorted(byop.items())}, file=sys.stderr)
    chosen = []
    seen = set()
    ops = sorted(byop)
    # weight by file: chess_boards.rs and games.rs carry most properties
    while len(chosen) < n:
        op = rng.choice(ops)
        p = rng.choice(byop[op])
        key = (p[0], p[1], p[2], p[3])
        if key in seen:
            continue
        seen.add(key)
        chosen.append(p)
    os.makedirs(OUT, exist_ok=True)
    existing = [int(os.path.basename(d)[1:]) for d in glob.glob(os.path.join(OUT, 'M*'))]
    k0 = max(existing, default=0)
    for k, (f, i, name, pos) in enumerate(chosen, k0 + 1):
        lines = open(f).read().split('\n')
        old = lines[i]
        if name == 'delete-stmt':
            new = old[:len(old) - len(old.lstrip())] + '/* mutant: statement deleted */'
        else:
            rx, rep = next((r, p) for (nm, r, p) in OPS if nm == name)
            code_len = len(old.split('//')[0])
            m = next(mm for mm in re.finditer(rx, old[:code_len]) if mm.start() == pos)
            new = old[:m.start()] + (rep(m) if callable(rep) else rep) + old[m.end():]
        if new == old:
            continue
        d = os.path.join(OUT, f'M{k:03d}')
        os.makedirs(d, exist_ok=True)
        rel = os.path.relpath(f, REPO)
        new_lines = list(lines)
        new_lines[i] = new
        tmp = os.path.join(d, 'new.rs')
        open(tmp, 'w').write('\n'.join(new_lines))
        diff = subprocess.run(['diff', '-u', '--label', 'a/' + rel, '--label', 'b/' + rel, f, tmp], capture_output=True, text=True).stdout
        os.remove(tmp)
        open(os.path.join(d, 'patch.diff'), 'w').write(diff)
        json.dump(dict(id=f'M{k:03d}', file=rel, line=i + 1, operator=name, before=old.strip(), after=new.strip(), seed=seed),
                  open(os.path.join(d, 'meta.json'), 'w'), indent=1)
    print('wrote', len(chosen), 'mutants')


def filt(slots):
    todo = queue.Queue()
    for d in sorted(glob.glob(os.path.join(OUT, 'M*'))):
        meta = json.load(open(os.path.join(d, 'meta.json')))
        if 'survives_tests' not in meta:
            todo.put(d)
    lock = threading.Lock()

    def run(cmd, cwd, env=None, timeout=1800):
        e = dict(os.environ, CARGO_NET_OFFLINE='true')
        if env:
            e.update(env)
        # own process group, so that a mutant that hangs the test binary is killed together with its shell
        import signal
        pr = subprocess.Popen(cmd, cwd=cwd, shell=True, stdout=subprocess.PIPE, stderr=subprocess.PIPE, text=True, env=e, start_new_session=True)
        try:
            so, se = pr.communicate(timeout=timeout)
        except subprocess.TimeoutExpired:
            os.killpg(pr.pid, signal.SIGKILL)
            pr.communicate()
            so, se = 'TIMEOUT', ''

        class R:
            pass
        r = R()
        r.returncode, r.stdout, r.stderr = (pr.returncode if so != 'TIMEOUT' else 124), so, se
        return r

    def worker(k):
        wt = f'/tmp/mutslot{k}'
        subprocess.run(['git', '-C', REPO, 'worktree', 'remove', '--force', wt], capture_output=True)
        shutil.rmtree(wt, ignore_errors=True)
        subprocess.run(['git', '-C', REPO, 'worktree', 'add', '--detach', wt, 'HEAD'], capture_output=True)
        while True:
            try:
                d = todo.get_nowait()
            except queue.Empty:
                break
            meta = json.load(open(os.path.join(d, 'meta.json')))
            run('git checkout -q -- . ', wt)
            r = run(f'git apply {d}/patch.diff', wt)
            if r.returncode != 0:
                meta.update(compiles=False, survives_tests=False, note='patch does not apply')
            else:
                r = run('cargo build --offline --lib 2>&1', wt)
                if r.returncode != 0:
                    meta.update(compiles=False, survives_tests=False)
                else:
                    # a mutant that hangs the suite counts as killed (timeout 10 min; the suite needs ~1 min)
                    r1 = run('cargo test --offline --lib 2>&1 | grep -E "^test result" | tail -1', wt, timeout=600)
                    ok1 = ' 0 failed' in r1.stdout and '85 passed' in r1.stdout
                    ok2 = False
                    r2 = None
                    if ok1:
                        r2 = run('cargo test --offline --doc 2>&1 | grep -E "^test result" | tail -1', wt, timeout=600)
                        ok2 = ' 0 failed' in r2.stdout and '27 passed' in r2.stdout
                    meta.update(compiles=True, survives_tests=bool(ok1 and ok2), lib=r1.stdout.strip()[-120:], doc=(r2.stdout.strip()[-120:] if r2 else None))
            json.dump(meta, open(os.path.join(d, 'meta.json'), 'w'), indent=1)
            with lock:
                print(meta['id'], meta['operator'], meta['file'], 'compiles' if meta['compiles'] else 'NOCOMPILE',
                      'SURVIVES' if meta['survives_tests'] else 'killed', flush=True)
        subprocess.run(['git', '-C', REPO, 'worktree', 'remove', '--force', wt], capture_output=True)

    ts = [threading.Thread(target=worker, args=(k,)) for k in range(slots)]
    for t in ts:
        t.start()
    for t in ts:
        t.join()


def survivors():
    out = []
    for d in sorted(glob.glob(os.path.join(OUT, 'M*'))):
        meta = json.load(open(os.path.join(d, 'meta.json')))
        if meta.get('survives_tests') and not os.path.exists(os.path.join(d, 'detect.json')):
            out.append(d)
    print(' '.join(out))


def report():
    rows = []
    for d in sorted(glob.glob(os.path.join(OUT, 'M*'))):
        meta = json.load(open(os.path.join(d, 'meta.json')))
        det = json.load(open(os.path.join(d, 'detect.json'))) if os.path.exists(os.path.join(d, 'detect.json')) else None
        rows.append((meta, det))
    n = len(rows)
    nc = sum(1 for m, _ in rows if m.get('compiles') is False)
    killed = sum(1 for m, _ in rows if m.get('compiles') and not m.get('survives_tests'))
    surv = [(m, d) for m, d in rows if m.get('survives_tests')]
    detd = [(m, d) for m, d in surv if d and d['detected_by']]
    und = [(m, d) for m, d in surv if d and not d['detected_by']]
    print(f'mutants {n}: do not compile {nc}, killed by the unedited suite {killed}, survive the suite {len(surv)}: '
          f'detected by some check {len(detd)}, undetected {len(und)}, not yet run {len(surv) - len(detd) - len(und)}')
    for m, d in surv:
        print(f"| {m['id']} | {m['file']}:{m['line']} | {m['operator']} | `{m['before'][:70]}` | "
              f"{', '.join(d['detected_by']) if d and d['detected_by'] else ('—' if d else 'not run')} | {m.get('triage', '')} |")


if __name__ == '__main__':
    cmd = sys.argv[1]
    if cmd == 'gen':
        gen(int(sys.argv[2]), int(sys.argv[3]) if len(sys.argv) > 3 else 1)
    elif cmd == 'filter':
        filt(int(sys.argv[3]) if len(sys.argv) > 3 and sys.argv[2] == '--slots' else 4)
    elif cmd == 'survivors':
        survivors()
    elif cmd == 'report':
        report()
