#!/bin/bash
# confirm_seed.sh <id> <worktree> : re-verify a seeded change independently and file it under /verif/seeded/<id>/
# (a) original tree: demo passes; (b) with patch: existing suite passes, demo fails.
set -u
id=$1; wt=$2; out=/verif/seeded/$id
export CARGO_NET_OFFLINE=true
mkdir -p $out
cp $wt/_out/patch.diff $out/patch.diff; cp $wt/_out/demo.rs $out/demo.rs; cp $wt/_out/notes.md $out/notes.md 2>/dev/null
cd $wt || exit 2
git checkout -q -- src; git clean -fdq src
mkdir -p tests; cp $out/demo.rs tests/demo.rs
orig_demo=$(cargo test --offline --test demo 2>&1 | grep -E '^test result' | tail -1)
git apply $out/patch.diff || { echo "patch does not apply"; exit 3; }
lib=$(cargo test --offline --lib 2>&1 | grep -E '^test result' | tail -1)
doc=$(cargo test --offline --doc 2>&1 | grep -E '^test result' | tail -1)
mut_demo=$(cargo test --offline --test demo 2>&1 | grep -E '^test result' | tail -1)
git checkout -q -- src
echo "$id | orig_demo: $orig_demo | lib: $lib | doc: $doc | mut_demo: $mut_demo"
python3 - "$id" "$orig_demo" "$lib" "$doc" "$mut_demo" <<'PY'
import sys, json, os
id, od, lib, doc, md = sys.argv[1:6]
ok = (' 0 failed' in od and 'ok.' in od) and ('85 passed' in lib and ' 0 failed' in lib) and (' 0 failed' in doc and 'ok.' in doc) and ('FAILED' in md)
p = f'/verif/seeded/{id}/confirm.json'
json.dump(dict(id=id, confirmed=ok, original_demo=od, mutated_lib=lib, mutated_doc=doc, mutated_demo=md,
               ran=['cargo test --offline --test demo (original src)', 'git apply patch.diff', 'cargo test --offline --lib', 'cargo test --offline --doc', 'cargo test --offline --test demo']), open(p, 'w'), indent=1)
print('CONFIRMED' if ok else 'NOT-CONFIRMED', id)
PY
cargo clean -q 2>/dev/null
