#!/usr/bin/env python3
"""Source-drift detector (DESIGN.md section 4.4): effort control, never a verdict.

`python3 lib/drift.py record` stores, for every function of /repo/src (outside #[cfg(test)] modules), a hash of its
token-normalised text (comments and whitespace removed) in lib/drift.json — done when the model was last brought in line with
the source.  `drift_for(prop)` compares the current working tree with that record and answers how much extra search the
property's quick check should spend on this run:
   0  nothing the property is anchored in has changed
   1  a file the property is anchored in (properties.jsonl, anchors.files) has changed
   2  a function named in the property's anchors (anchors.mechanism[].where / observe_at) has changed, or was removed
A changed hash raises nothing by itself: the check then runs its correspondence groups with one ADDITIONAL generator seed, so edited code is met with a deeper search.  On the unchanged tree the answer is 0 and nothing changes.
"""
import os, re, json, hashlib, sys, glob

VERIF = '/verif'
RECORD = os.path.join(VERIF, 'lib', 'drift.json')


def strip_comments(src):
    out = []
    i, n = 0, len(src)
    while i < n:
        c = src[i]
        if src.startswith('//', i):
            j = src.find('\n', i)
            i = n if j < 0 else j
        elif src.startswith('/*', i):
            j = src.find('*/', i + 2)
            i = n if j < 0 else j + 2
        elif c == '"':
            j = i + 1
            while j < n and src[j] != '"':
                j += 2 if src[j] == '\\' else 1
            out.append(src[i:j + 1])
            i = j + 1
        elif src.startswith('r#"', i) or src.startswith('r"', i):
            hashes = 1 if src.startswith('r#"', i) else 0
            end = '"' + '#' * hashes
            j = src.find(end, i + 2 + hashes)
            j = n if j < 0 else j + len(end)
            out.append(src[i:j])
            i = j
        else:
            out.append(c)
            i += 1
    return ''.join(out)


def functions(path):
    """name -> hash of the normalised text of every `fn name` item (several items of one name are concatenated)"""
    src = open(path, errors='replace').read()
    cut = src.find('#[cfg(test)]')
    if cut >= 0:
        src = src[:cut]
    src = strip_comments(src)
    res = {}
    for m in re.finditer(r'\bfn\s+([A-Za-z_][A-Za-z0-9_]*)', src):
        name = m.group(1)
        j = src.find('{', m.end())
        k = src.find(';', m.end())
        if j < 0 or (0 <= k < j):
            continue
        depth, p = 0, j
        while p < len(src):
            if src[p] == '{':
                depth += 1
            elif src[p] == '}':
                depth -= 1
                if depth == 0:
                    break
            p += 1
        body = re.sub(r'\s+', '', src[m.start():p + 1])
        res[name] = hashlib.sha256((res.get(name, '') + body).encode()).hexdigest()[:16]
    res['<file>'] = hashlib.sha256(re.sub(r'\s+', '', src).encode()).hexdigest()[:16]
    return res


def snapshot(repo):
    out = {}
    for f in sorted(glob.glob(os.path.join(repo, 'src', '**', '*.rs'), recursive=True)):
        out[os.path.relpath(f, repo)] = functions(f)
    return out


def anchors(prop):
    files, fns = set(), set()
    for l in open(os.path.join(VERIF, 'properties.jsonl')):
        p = json.loads(l)
        if p['id'] != prop:
            continue
        a = p.get('anchors', {})
        files.update(a.get('files', []))
        for mch in a.get('mechanism', []) + a.get('state', []):
            for nm in re.findall(r'\(([A-Za-z_][A-Za-z0-9_:, ]*)\)', mch.get('where', '')):
                for x in re.split(r'[,\s]+', nm):
                    if x:
                        fns.add(x.split('::')[-1])
            for fpath in re.findall(r'(src/[\w/]+\.rs)', mch.get('where', '')):
                files.add(fpath)
        for o in a.get('observe_at', []):
            fns.add(o.split('::')[-1].split('(')[0])
    return files, fns


def drift_for(prop, repo='/repo'):
    try:
        rec = json.load(open(RECORD))
    except (OSError, ValueError):
        return 0, dict(note='no drift record')
    files, fns = anchors(prop)
    level = 0
    changed_files, changed_fns = [], []
    for f in sorted(files):
        path = os.path.join(repo, f)
        cur = functions(path) if os.path.exists(path) else {}
        old = rec.get(f, {})
        if cur.get('<file>') != old.get('<file>'):
            changed_files.append(f)
            level = max(level, 1)
            for nm in sorted(fns):
                if nm in old and cur.get(nm) != old.get(nm):
                    changed_fns.append(f'{f}:{nm}')
                    level = 2
    return level, dict(changed_files=changed_files, changed_anchor_functions=changed_fns)


if __name__ == '__main__':
    if len(sys.argv) > 1 and sys.argv[1] == 'record':
        json.dump(snapshot('/repo'), open(RECORD, 'w'), indent=0, sort_keys=True)
        print('recorded', RECORD)
    else:
        for i in range(1, 21):
            p = f'C{i:02d}'
            print(p, drift_for(p, sys.argv[1] if len(sys.argv) > 1 else '/repo'))
