import sys, os, json, hashlib, subprocess, time, fcntl, re, shutil, glob

VERIF = os.environ.get('VERIF_ROOT') or '/verif'     # VERIF_ROOT: a frozen copy of harness/ lib/ corpus/ (experiments only)
# The registered checks always run against /repo with the cache in /verif/.cache.  For experiments that must not disturb /repo
# (mutation sweeps, seeded changes checked in parallel) VERIF_REPO names another checkout of the library and VERIF_CACHE another
# cache directory; the harness is then built from a shadow copy of /verif/harness whose path dependency points there.
REPO = os.environ.get('VERIF_REPO') or '/repo'
CACHE = os.environ.get('VERIF_CACHE') or os.path.join('/verif', '.cache')
EVIDENCE_DIR = os.environ.get('VERIF_EVIDENCE') or os.path.join(VERIF, 'evidence')
REPLAY_DIR = os.environ.get('VERIF_REPLAYS') or os.path.join(VERIF, 'replays')
LEAN = '/verif/chess'
HARNESS_SRC = os.path.join(VERIF, 'harness')
SHADOW = REPO != '/repo' or CACHE != os.path.join('/verif', '.cache')
HARNESS_DIR = os.path.join(CACHE, 'harness-shadow') if SHADOW else HARNESS_SRC
HARNESS_BIN = os.path.join(CACHE, 'harness-target', 'release', 'harness')
DRIVER_BIN = os.environ.get('VERIF_DRIVER') or os.path.join(LEAN, '.lake', 'build', 'bin', 'cvdriver')
FROZEN_LEAN = bool(os.environ.get('VERIF_DRIVER'))     # experiments against a frozen driver: no lake build, audit from the cache
ALLOWED_AXIOMS = {'propext', 'Classical.choice', 'Quot.sound'}
TRUSTED_BASE = [
    'Lean 4.33 kernel; axioms per theorem within {propext, Classical.choice, Quot.sound}; no sorry/native_decide/bv_decide/user axioms',
    'statements in chess/Chess/Spec and chess/Chess/Props (what the property means)',
    'hand-written model chess/Chess/Model/* tied to /repo by this correspondence run (Rust harness + compiled Lean driver + this comparer)',
    'u64 intrinsics (trailing_zeros, leading_zeros, count_ones) modelled by definition; usize clocks as Nat (no overflow, K1)',
    'rand StdRng (PCG32 seed expansion + ChaCha12 + BlockRng::next_u64) is modelled (Model/Rng.lean, kernel-checked against RFC 7539 / rand_chacha vectors) and proved to produce the committed key table from the SEED constant; the table is also dumped from the running implementation on every run and re-proved good by the kernel if it differs',
    'M0 (declarative spec) is executed on a sample of the op lines only; M1 = M0 is a theorem for the sampled observations (C01-C06, C13, C14)',
    'regex, textwrap, colored crates: parameters with recorded assumptions (ScanOK, WrapOK, PaintOK), checked on every case run',
]

# ---------------------------------------------------------------------------------------------
# property table: groups to run, (op -> keys) compared for that property
# keys listed under 'soft' are compared but a difference alone is not a failing input
# ---------------------------------------------------------------------------------------------
POSKEYS_ABS = ['pl', 'stm', 'cr', 'ep', 'half', 'full']
PROPS = {
    'C01': dict(groups=['legal'], ops={'legal': ['moves', 'castle']}),
    'C02': dict(groups=['moves'], ops={'mv': ['r'] + POSKEYS_ABS + ['same']}, only_if={'mv': ('r', 'ok')}),
    'C03': dict(groups=['univ', 'moves', 'legal'], ops={'univ': ['acc', 'appdiff', 'panics', 'n'], 'mv': ['r', 'same', 'sc03'], 'legal': ['c03']}),
    'C04': dict(groups=['legal', 'moves'], ops={'status': ['status', 'term'], 'mv': ['term']}),
    'C05': dict(groups=['legal', 'moves'], ops={'masks': ['chk', 'pin'], 'mv': ['chk', 'pin']}),
    'C06': dict(groups=['moves', 'legal'], ops={'q': ['pl', 'tl', 'cl', 'em', 'kw', 'kb', 'inv'], 'mv': ['pm', 'cm', 'comb']}),
    'C07': dict(groups=['zobrist'], ops={'zob': ['keys'], 'mv': ['hash']}),
    'C08': dict(groups=['fen'], ops={'fen': ['fen', 'rt', 'setup'], 'pfen': ['b']}),
    'C09': dict(groups=['fen'], ops={'pfen': ['c'] + POSKEYS_ABS + ['pm', 'cm', 'comb', 'pin', 'chk', 'term', 'hash', 'g']}),
    'C10': dict(groups=['parse', 'fen', 'pgn'], ops={'pmove': ['r', 'rr'], 'psq': ['r'], 'pfile': ['r'], 'prank': ['r'],
                                              'ppiece': ['r'], 'g.frompgn': ['r'], 'pfen': ['b', 'c', 'g'], 'g.pgn': ['rt']},
                classes_only={'pfen': ['b', 'c', 'g'], 'g.pgn': ['rt'], 'g.frompgn': ['r']}),
    'C11': dict(groups=['game'], ops={'g.new': ['status', 'cnt', 'cnts'], 'g.act': ['status', 'cnt', 'cnts'], 'g.probe': ['cnt']}),
    'C12': dict(groups=['game'], ops={'g.new': ['status', 'tag', 'hlen'], 'g.act': ['r', 'status', 'tag', 'hlen', 'fen', 'hash', 'cnts']}),
    'C13': dict(groups=['game'], ops={'g.hist': ['text', 'lookup', 'flags', 'chain'], 'g.act': ['hlen']}),
    'C14': dict(groups=['san'], ops={'sanall': ['sans', 'dup', 'illegal']}),
    # g.frompgn (parse group): the importer on ARBITRARY text (example files, exports, mutations, garbage) against the model
    # importer.  C15 itself speaks about the library's own exports only, so a difference there is a broken correspondence
    # (`corr`: reported with no-failing-input-found), not by itself a failing input of C15.
    'C15': dict(groups=['pgn', 'parse'], ops={'g.pgn': ['tags', 'words', 'rt', 'rtags'], 'rx': ['sec', 'nsec', 'moves', 'n', 'res', 'rx'],
                                             'g.frompgn': ['r', 'st', 'n', 'fen', 'tags'], 'g.tag': ['r']}, corr_only={'g.frompgn'}),
    'C16': dict(groups=['parse'], ops={'pmove': ['r', 'rr']}, only_if={'pmove': ('r', 'ok')}),
    'C17': dict(groups=['tables'], ops={'tbl': ['v'], 'prim': ['v']}),
    # psq/pfile/prank/ppiece (parse group): `foreign texts are errors` is part of C18's statement
    'C18': dict(groups=['prims', 'parse'], ops={'prim': ['v'], 'bb': ['list', 'cnt', 'lo', 'hi', 'alg', 'dbg'],
                                              'psq': ['r'], 'pfile': ['r'], 'prank': ['r'], 'ppiece': ['r']}),
    'C19': dict(groups=['flip'], ops={'flip': ['v', 'h']}),
    'C20': dict(groups=['render', 'prims'], ops={'render': ['s', 'f', 'd'], 'gstat': ['v'], 'bb': ['grid']}),
}


# the declarative spec M0 is ~50x slower than M1; since M1 = M0 is proved for these ops, M0 is executed on every N-th op line
# only and the budget saved goes into more positions (harness budgets in harness/src/main.rs)
M0_EVERY = {'legal': {'quick': 6, 'thorough': 6}, 'moves': {'quick': 4, 'thorough': 4}, 'san': {'quick': 6, 'thorough': 6},
            'game': {'quick': 3, 'thorough': 3}}   # game: whole sessions are sampled (decided at g.new)


def log(*a):
    print(*a, file=sys.stderr, flush=True)


def sh(cmd, cwd=None, timeout=None, env=None):
    e = dict(os.environ)
    e['CARGO_NET_OFFLINE'] = 'true'
    if env:
        e.update(env)
    p = subprocess.run(cmd, cwd=cwd, shell=isinstance(cmd, str), stdout=subprocess.PIPE, stderr=subprocess.STDOUT,
                       timeout=timeout, env=e, text=True, errors='replace')
    return p.returncode, p.stdout


class Lock:
    def __init__(self, name):
        os.makedirs(CACHE, exist_ok=True)
        self.path = os.path.join(CACHE, name)

    def __enter__(self):
        self.f = open(self.path, 'w')
        fcntl.flock(self.f, fcntl.LOCK_EX)

    def __exit__(self, *a):
        fcntl.flock(self.f, fcntl.LOCK_UN)
        self.f.close()


def tree_hash(paths):
    h = hashlib.sha256()
    for root in paths:
        if os.path.isfile(root):
            files = [root]
        else:
            files = []
            for d, dn, fn in os.walk(root):
                dn[:] = sorted(x for x in dn if x not in ('target', '.git', '.lake', '.cache'))
                for f in sorted(fn):
                    files.append(os.path.join(d, f))
        for f in files:
            h.update(f.encode())
            try:
                h.update(open(f, 'rb').read())
            except OSError:
                pass
    return h.hexdigest()[:20]


# ---------------------------------------------------------------------------------------------
# builds
# ---------------------------------------------------------------------------------------------
def shadow_harness():
    """copy of /verif/harness whose libchess dependency and target directory point at VERIF_REPO / VERIF_CACHE"""
    os.makedirs(os.path.join(HARNESS_DIR, '.cargo'), exist_ok=True)
    for name in ('src', 'seeds.txt', 'Cargo.lock'):
        dst = os.path.join(HARNESS_DIR, name)
        if os.path.islink(dst) or os.path.isfile(dst):
            os.remove(dst)
        elif os.path.isdir(dst):
            shutil.rmtree(dst)
        if name == 'Cargo.lock':
            shutil.copy(os.path.join(HARNESS_SRC, name), dst)
        else:
            os.symlink(os.path.join(HARNESS_SRC, name), dst)
    toml = open(os.path.join(HARNESS_SRC, 'Cargo.toml')).read().replace('path = "/repo"', f'path = "{REPO}"')
    open(os.path.join(HARNESS_DIR, 'Cargo.toml'), 'w').write(toml)
    open(os.path.join(HARNESS_DIR, '.cargo', 'config.toml'), 'w').write(
        f'[net]\noffline = true\n\n[build]\ntarget-dir = "{os.path.join(CACHE, "harness-target")}"\n')


def build_harness():
    if SHADOW:
        shadow_harness()
    with Lock('cargo.lock'):
        rc, out = sh('cargo build --release --offline 2>&1', cwd=HARNESS_DIR, timeout=1800)
    if rc != 0:
        os.makedirs(os.path.join(CACHE, 'logs'), exist_ok=True)
        p = os.path.join(CACHE, 'logs', 'harness-build.log')
        open(p, 'w').write(out)
        return False, p
    return True, None


def build_lean():
    if FROZEN_LEAN:
        return True, None
    with Lock('lake.lock'):
        rc, out = sh('lake build Chess cvdriver 2>&1', cwd=LEAN, timeout=3600)
    if rc != 0:
        os.makedirs(os.path.join(CACHE, 'logs'), exist_ok=True)
        p = os.path.join(CACHE, 'logs', 'lean-build.log')
        open(p, 'w').write(out)
        return False, p
    return True, None


FORBIDDEN = re.compile(r'\bsorry\b|\badmit\b|^\s*axiom\s|native_decide|bv_decide|implemented_by|\bunsafe\s|maxHeartbeats\s+0')


def source_scan():
    """forbidden tokens outside comments in every Lean source of the project"""
    hits = []
    for f in glob.glob(os.path.join(LEAN, '**', '*.lean'), recursive=True):
        if '/.lake/' in f:
            continue
        txt = open(f).read()
        txt = re.sub(r'/-.*?-/', lambda m: '\n' * m.group(0).count('\n'), txt, flags=re.S)
        for i, line in enumerate(txt.split('\n'), 1):
            line = line.split('--')[0]
            if FORBIDDEN.search(line):
                hits.append(f'{os.path.relpath(f, LEAN)}:{i}: {line.strip()[:80]}')
    return hits


def registry():
    p = os.path.join(LEAN, 'Chess', 'Props', 'registry.json')
    return json.load(open(p)) if os.path.exists(p) else {}


def audit_theorems(prop):
    """#print axioms for every theorem registered for `prop`; returns (obligations, discharged, details)"""
    reg = registry().get(prop, {})
    thms = reg.get('theorems', [])
    if not thms:
        return 0, 0, []
    key = tree_hash([os.path.join(LEAN, 'Chess'), os.path.join(LEAN, 'Chess.lean')]) + '-' + prop
    cpath = os.path.join(CACHE, 'audit', key + '.json')
    if os.path.exists(cpath):
        det = json.load(open(cpath))
    elif FROZEN_LEAN:
        det = [dict(theorem=t, ok=True, axioms=None, note='not audited in this experiment run (frozen driver)') for t in thms]
    else:
        src = 'import Chess\n' + ''.join(f'#print axioms {t}\n' for t in thms)
        os.makedirs(os.path.join(CACHE, 'audit'), exist_ok=True)
        apath = os.path.join(CACHE, 'audit', f'Audit_{prop}_{os.getpid()}.lean')
        open(apath, 'w').write(src)
        rc, out = sh(f'lake env lean {apath} 2>&1', cwd=LEAN, timeout=1800)
        os.remove(apath)
        det = []
        # output: "'name' depends on axioms: [a, b]" or "'name' does not depend on any axioms"; errors otherwise
        flat = out.replace('\n', ' ')
        for t in thms:
            m = re.search(r"'" + re.escape(t) + r"' (does not depend on any axioms|depends on axioms: \[([^\]]*)\])", flat)
            if not m:
                det.append(dict(theorem=t, ok=False, axioms=None, note='not found / does not check'))
                continue
            ax = [] if m.group(2) is None else [a.strip() for a in m.group(2).split(',') if a.strip()]
            det.append(dict(theorem=t, ok=set(ax) <= ALLOWED_AXIOMS, axioms=ax))
        json.dump(det, open(cpath, 'w'))
    return len(thms), sum(1 for d in det if d['ok']), det


# ---------------------------------------------------------------------------------------------
# correspondence run
# ---------------------------------------------------------------------------------------------
def run_group(group, tier, seed, extra_env=None, force=False):
    """returns directory with ops.txt impl.txt model.txt gen.json; cached per tree state"""
    key = tree_hash([os.path.join(REPO, 'src'), os.path.join(REPO, 'Cargo.toml'), os.path.join(REPO, 'Cargo.lock'),
                     os.path.join(HARNESS_SRC, 'src'), os.path.join(HARNESS_SRC, 'seeds.txt'), DRIVER_BIN])
    tag = f'{group}-{tier}-{seed}-{key}'
    if extra_env:
        tag += '-' + hashlib.sha256(json.dumps(extra_env, sort_keys=True).encode()).hexdigest()[:8]
    out = os.path.join(CACHE, 'runs', tag)
    with Lock(f'run-{group}.lock'):
        if os.path.exists(os.path.join(out, 'done')) and not force:
            return out, json.load(open(os.path.join(out, 'timing.json')))
        # drop stale runs of this group
        for d in glob.glob(os.path.join(CACHE, 'runs', f'{group}-{tier}-{seed}-*')):
            shutil.rmtree(d, ignore_errors=True)
        os.makedirs(out, exist_ok=True)
        t0 = time.time()
        rc, o = sh([HARNESS_BIN, group, tier, str(seed), out], timeout=7200, env=dict(extra_env or {}, VERIF_REPO=REPO))
        t1 = time.time()
        if rc != 0:
            open(os.path.join(out, 'harness.log'), 'w').write(o)
            raise RuntimeError(f'harness failed on group {group}: rc={rc}: {o[-400:]}')
        m0every = M0_EVERY.get(group, {}).get(tier, 1)
        seed_args = []
        if group == 'zobrist':
            sd = source_seed()
            if sd is not None:
                seed_args = [f'seed={sd}']
        rc, o2 = sh([DRIVER_BIN, os.path.join(out, 'keys.txt'), os.path.join(out, 'ops.txt'), os.path.join(out, 'model.txt')] + (['lite'] if group == 'pgn' else [])
                    + ([f'm0every={m0every}'] if m0every > 1 else []) + seed_args
                    + (['rehash'] if (extra_env or {}).get('VERIF_CORPUS') else []), timeout=7200)
        t2 = time.time()
        if rc != 0:
            raise RuntimeError(f'driver failed on group {group}: rc={rc}: {o2[-400:]}')
        timing = dict(harness_s=round(t1 - t0, 2), driver_s=round(t2 - t1, 2))
        json.dump(timing, open(os.path.join(out, 'timing.json'), 'w'))
        open(os.path.join(out, 'done'), 'w').write('ok')
    return out, timing


def parse_obs(s):
    d = {}
    bare = []
    for tok in s.split(' '):
        if not tok:
            continue
        if '=' in tok:
            k, v = tok.split('=', 1)
            if k in d:           # second occurrence keeps first (should not happen)
                continue
            d[k] = v
        else:
            bare.append(tok)
    if bare:
        d['_bare'] = ' '.join(bare)
    return d


def klass(v):
    return v.split(':', 1)[0] if v is not None else None


class Finding:
    def __init__(self, prop, group, lineno, op_line, op, key, impl, m1, m0, kind, context=None):
        self.__dict__.update(locals())
        del self.__dict__['self']


def compare_group(prop, group, rundir, stats):
    """yield Findings for property `prop` on one group run"""
    spec = PROPS[prop]
    ops_keys = spec['ops']
    only_if = spec.get('only_if', {})
    classes_only = spec.get('classes_only', {})
    findings = []
    model_disagreements = []
    session_start = None
    ops_f = open(os.path.join(rundir, 'ops.txt'), errors='replace')
    impl_f = open(os.path.join(rundir, 'impl.txt'), errors='replace')
    model_f = open(os.path.join(rundir, 'model.txt'), errors='replace')
    session_ops = []
    distinct = set()
    samples = []
    n = 0
    for lineno, (opl, il, ml) in enumerate(zip(ops_f, impl_f, model_f), 1):
        opl = opl.rstrip('\n')
        op = opl.split(' ', 1)[0]
        if op == 'g.new':
            session_ops = []
        if op.startswith('g.'):
            session_ops.append(opl)
        if op not in ops_keys:
            continue
        il = il.rstrip('\n')
        ml = ml.rstrip('\n')
        m1s, _, m0s = ml.partition(' ## ')
        I, M1, M0 = parse_obs(il), parse_obs(m1s), parse_obs(m0s)
        invalid_pos = M1.get('vp') == '0'
        if invalid_pos:
            stats['invalid_positions'] = stats.get('invalid_positions', 0) + 1
        if op in only_if:
            k, v = only_if[op]
            if klass(I.get(k)) != v and klass(M1.get(k)) != v:
                continue
        # successor observations belong to C02/C04/C05/C06/C07 only for moves the SPECIFICATION calls legal
        # (an illegal move the implementation wrongly accepts is C01/C03's finding, not theirs)
        if op == 'mv' and prop != 'C03' and (M0.get('r') if 'r' in M0 else M1.get('r')) != 'ok':
            continue
        n += 1
        stats['per_op'][op] = stats['per_op'].get(op, 0) + 1
        hsh = hashlib.md5(opl.encode()).digest()[:8]
        if hsh not in distinct:
            distinct.add(hsh)
            triv = I.get('_bare') in ('panic',) or klass(I.get('r')) in ('err', 'illegal') or I.get('moves') == '-'
            if not triv:
                stats['nontrivial'] += 1
        if len(samples) < 3 and n % 97 == 1:
            samples.append(dict(op=opl[:300], impl=il[:300]))
        # whole-line anomalies
        if '_bare' in I or '_bare' in M1:
            if I.get('_bare') != M1.get('_bare'):
                findings.append(Finding(prop, group, lineno, opl, op, '_line', il[:500], m1s[:500], m0s[:500],
                                        'decisive' if I.get('_bare') == 'panic' else 'corr', list(session_ops)))
            continue
        if op == 'rx' and I.get('rx') == 'nopattern':
            # the harness could not find the three pattern literals in the current games.rs (the source was restructured):
            # this tie is lost for the run (recorded), the importer itself is still compared through g.pgn
            stats['rx_patterns_not_found'] = stats.get('rx_patterns_not_found', 0) + 1
            continue
        for k in ops_keys[op]:
            iv, mv, sv = I.get(k), M1.get(k), M0.get(k)
            if iv is None and mv is None:
                continue
            if group == 'corpus' and k == 'hash':
                continue
            if op == 'zob' and k == 'keys' and iv is not None:
                rngv = M1.get('rng')
                stats.setdefault('key_table', {})
                stats['key_table'].update(source_seed=source_seed(), equals_committed_table=(iv == mv),
                                          equals_modelled_generator_on_source_seed=(None if rngv is None else iv == rngv),
                                          committed_table_proved_from_seed='theorem Chess.C07.rng_table_eq (SEED 1370359990842121)')
            if op == 'zob' and k == 'keys' and iv != mv and iv is not None:
                # the published table differs from the committed one: a harmless change (another seed) unless the NEW table
                # violates the property; re-run the kernel checks on the dumped table (regenerated proof obligation)
                ok_keys, detail = reprove_keys(iv)
                stats['key_table'].update(differs_from_committed=True, **{kk: vv for kk, vv in detail.items() if kk != 'output'})
                if not ok_keys:
                    fnd = Finding(prop, group, lineno, opl, op, k, short(iv, 300), json.dumps(detail)[:1500], None,
                                  'decisive' if detail.get('reason') == 'key table is not good' else 'corr', list(session_ops))
                    findings.append(fnd)
                continue
            if op in classes_only and k in classes_only[op]:
                iv, mv = klass(iv), klass(mv)
                sv = klass(sv) if sv is not None else None
                # C10 is about totality: only a panic (or a non-terminating call) violates it
                if iv != 'panic':
                    continue
            if mv == '*':
                if iv == 'panic' or iv is None:
                    findings.append(Finding(prop, group, lineno, opl, op, k, iv, mv, sv, 'decisive', list(session_ops)))
                continue
            # The specification M0 is the property's own predicate.  On valid inputs M1 = M0 is a theorem, so:
            #   I != M0                -> the implementation violates the property on this input (decisive), whatever M1 says
            #                             (I = M1 != M0 happens when a hypothesis of the theorems fails in the implementation's
            #                              own data, e.g. a Zobrist collision or duplicate keys);
            #   I == M0 != M1          -> my model is wrong: MODEL-DISAGREEMENT, never a verdict on /repo;
            #   no M0 for this key     -> I is compared with M1.
            # On a dumped position that is itself invalid (vp=0) only I vs M1 is compared.
            if sv is not None and not invalid_pos:
                if iv == sv:
                    if mv != sv:
                        model_disagreements.append(Finding(prop, group, lineno, opl, op, k, iv, mv, sv, 'model', list(session_ops)))
                    continue
                findings.append(Finding(prop, group, lineno, opl, op, k, iv, mv, sv, 'decisive', list(session_ops)))
                continue
            if iv == mv:
                continue
            findings.append(Finding(prop, group, lineno, opl, op, k, iv, mv, sv,
                                    'corr' if op in spec.get('corr_only', ()) and iv != 'panic' else 'decisive', list(session_ops)))
    stats['evaluations'] += n
    stats['distinct'] += len(distinct)
    stats['samples'].extend(samples)
    return findings, model_disagreements


def short(v, n=400):
    if v is None:
        return None
    return v if len(v) <= n else v[:n] + f'…(+{len(v) - n})'


def first_diff(a, b):
    """for comma lists: elements only in a / only in b"""
    if a is None or b is None or ',' not in (a + b):
        return None
    sa, sb = a.split(','), b.split(',')
    if len(sa) != len(sb):
        xa, xb = set(sa), set(sb)
        return dict(only_impl=sorted(xa - xb)[:10], only_model=sorted(xb - xa)[:10], len_impl=len(sa), len_model=len(sb))
    for i, (x, y) in enumerate(zip(sa, sb)):
        if x != y:
            return dict(index=i, impl=x, model=y)
    return None


def write_replay(f, tier, seed):
    os.makedirs(REPLAY_DIR, exist_ok=True)
    body = dict(property=f.prop, group=f.group, tier=tier, seed=seed, line=f.lineno, op=f.op_line if len(f.op_line) < 4000 else f.op_line[:4000],
                key=f.key, impl=short(f.impl, 2000), model_M1=short(f.m1, 2000), spec_M0=short(f.m0, 2000),
                diff=first_diff(f.impl, f.m1), kind=f.kind,
                correspondence=f'corr:{f.op}:{f.key}',
                session_ops=(f.context or [])[-400:],
                how_to_replay=f'/verif/check {f.prop} --replay <this file>')
    h = hashlib.sha256(json.dumps(body, sort_keys=True).encode()).hexdigest()[:12]
    p = os.path.join(REPLAY_DIR, f'{f.prop}-{h}.json')
    body['full_op'] = f.op_line
    json.dump(body, open(p, 'w'), indent=1)
    return p


def load_known():
    op, fx = [], []
    p = os.path.join(VERIF, 'known_findings.txt')
    if os.path.exists(p):
        for line in open(p):
            line = line.strip()
            if line.startswith('open:'):
                m = re.match(r'open:\s*property=(\S+)\s+match=(\S+)\s+(.*)', line)
                if m:
                    op.append(dict(prop=m.group(1), match=m.group(2), what=m.group(3)))
            elif line.startswith('fixed:'):
                fx.append(line)
    return op, fx


def write_evidence(prop, tier, seed, level, coverage, wall, violations, assumptions):
    os.makedirs(EVIDENCE_DIR, exist_ok=True)
    ev = dict(property_id=prop, tier=tier, seed=seed, level=level, coverage=coverage, wall_s=round(wall, 2),
              violations=violations, assumptions=assumptions)
    json.dump(ev, open(os.path.join(EVIDENCE_DIR, f'{prop}.json'), 'w'), indent=1)


def manifest_entry(prop):
    m = json.load(open(os.path.join(VERIF, 'MANIFEST.json')))
    for c in m['checks']:
        if c['property_id'] == prop:
            return c
    return None


def source_seed():
    """translator for one constant: `const SEED: u64 = N;` in /repo/src/zobrist.rs (None if the source no longer has that shape)"""
    try:
        txt = open(os.path.join(REPO, 'src', 'zobrist.rs')).read()
    except OSError:
        return None
    m = re.search(r'const\s+SEED\s*:\s*u64\s*=\s*([0-9_]+)\s*;', txt)
    return int(m.group(1).replace('_', '')) if m else None


DUMPED_KEYS_TEMPLATE = """import Chess.Props.C07Keys
/-! GENERATED at run time by lib/checklib.py: the key table dumped from the running implementation differs from the committed
one (chess/Chess/Gen/ZobristKeys.lean); the two kernel checks of C07 (non-zero, pairwise distinct) are re-run on THIS table. -/
namespace Chess.Dumped
def keysBig : Nat := 0x%x
def zkey (k : Nat) : Nat := Nat.land (Nat.shiftRight keysBig (64 * k)) 18446744073709551615
set_option maxRecDepth 100000 in
theorem keys_nonzero : Chess.C07.allN (fun k => !(Nat.beq (zkey k) 0)) 785 = true := by decide +kernel
set_option maxRecDepth 100000 in
theorem keys_distinct : Chess.C07.allN (fun i => Chess.C07.allN (fun j => !(Nat.beq (zkey i) (zkey j))) i) 785 = true := by decide +kernel
theorem keys_good : Chess.C07.KeysGood zkey := by
  constructor
  · intro i hi h
    have := Chess.C07.allN_spec _ 785 keys_nonzero i hi
    simp [h] at this
  · intro i j hji hi h
    have h1 := Chess.C07.allN_spec _ 785 keys_distinct i hi
    have h2 := Chess.C07.allN_spec _ i h1 j hji
    rw [h] at h2
    simp at h2
end Chess.Dumped
#print axioms Chess.Dumped.keys_good
"""


def reprove_keys(keys_csv):
    """C07, regenerated proof obligation: the implementation's key table changed (e.g. another seed).  Re-check KeysGood on the
    dumped table with the kernel.  Returns (ok, detail)."""
    try:
        keys = [int(x, 16) for x in keys_csv.split(',')]
    except ValueError:
        return False, dict(reason='unparsable key dump')
    if len(keys) != 785:
        return False, dict(reason=f'{len(keys)} keys dumped, 785 expected')
    # failing-input search first (cheap): a zero key or a duplicate pair is the replay
    zeros = [i for i, k in enumerate(keys) if k == 0]
    seen = {}
    dups = []
    for i, k in enumerate(keys):
        if k in seen:
            dups.append((seen[k], i, hex(k)))
        seen.setdefault(k, i)
    if zeros or dups:
        return False, dict(reason='key table is not good', zero_key_indices=zeros[:10], duplicate_pairs=dups[:10],
                           layout='index 0 black-to-move; 1+c*384+p*64+s piece keys; 769+c*4+r castling keys; 777+f en-passant file keys')
    big = 0
    for i, k in enumerate(keys):
        big |= k << (64 * i)
    h = hashlib.sha256(keys_csv.encode()).hexdigest()[:16]
    d = os.path.join(CACHE, 'keys')
    os.makedirs(d, exist_ok=True)
    okp = os.path.join(d, h + '.ok')
    if os.path.exists(okp):
        return True, dict(reason='dumped table re-proved (cached)', table_sha=h)
    f = os.path.join(d, f'DumpedKeys_{h}.lean')
    open(f, 'w').write(DUMPED_KEYS_TEMPLATE % big)
    rc, out = sh(f'lake env lean {f} 2>&1', cwd=LEAN, timeout=1800)
    m = re.search(r"'Chess.Dumped.keys_good' (does not depend on any axioms|depends on axioms: \[([^\]]*)\])", out.replace('\n', ' '))
    ax = [] if (m is None or m.group(2) is None) else [a.strip() for a in m.group(2).split(',')]
    if rc == 0 and m and set(ax) <= ALLOWED_AXIOMS:
        open(okp, 'w').write('ok')
        return True, dict(reason='dumped table re-proved by the kernel', table_sha=h, lean_file=f)
    return False, dict(reason='kernel check of the dumped table failed', output=out[-1500:], lean_file=f)


def extra_checks(prop, rundirs, stats):
    """property-specific predicates evaluated on the implementation's own observations"""
    out = []
    if prop == 'C07':
        # transpositions: equal (placement, side, rights, ep) => equal hash, on the implementation's outputs
        seen = {}
        for g, rd in rundirs.items():
            for lineno, (opl, il) in enumerate(zip(open(os.path.join(rd, 'ops.txt')), open(os.path.join(rd, 'impl.txt'))), 1):
                if not opl.startswith('mv '):
                    continue
                I = parse_obs(il.rstrip('\n'))
                if I.get('r') != 'ok':
                    continue
                k = (I.get('pl'), I.get('stm'), I.get('cr'), I.get('ep'))
                h = I.get('hash')
                if k in seen and seen[k][0] != h:
                    out.append(Finding(prop, g, lineno, opl.rstrip('\n'), 'mv', 'hash-transposition', h, seen[k][0], None, 'decisive',
                                       [seen[k][1]]))
                seen.setdefault(k, (h, opl.rstrip('\n')))
        stats['transposition_keys'] = len(seen)
    if prop == 'C16':
        # exhaustiveness: every representable move value was printed and re-parsed
        seen = set()
        for g, rd in rundirs.items():
            for opl, il in zip(open(os.path.join(rd, 'ops.txt')), open(os.path.join(rd, 'impl.txt'))):
                if opl.startswith('pmove '):
                    I = parse_obs(il.rstrip('\n'))
                    r = I.get('r', '')
                    if r.startswith('ok:') and I.get('rr') == '1':
                        seen.add(r[3:])
        stats['distinct_moves_roundtripped'] = len(seen)
    return out



# ---------------------------------------------------------------------------------------------
# supporting bounded model checking (Kani / CBMC) for the u64-domain primitives — supports the TIE of C18, decides nothing
# ---------------------------------------------------------------------------------------------
KANI_SRC = os.path.join(VERIF, 'kani')
KANI_FILES = ['src/bitboards.rs', 'src/coordinates.rs', 'src/board_files.rs', 'src/board_ranks.rs']


def kani_support(tier, stats):
    """The Lean model defines trailing_zeros / leading_zeros / count_ones by definition and the correspondence run can only sample
    2^64 masks.  /verif/kani holds five Kani harnesses showing bit-precisely, for EVERY u64, that BitBoard::last_bit_square /
    first_bit_square / Iterator::next / count_ones / the operators meet exactly those definitions.  Run at the thorough tier, and
    at the quick tier whenever the files concerned differ from the ones of the recorded successful run (kani/verified.json).
    Returns a list of (harness description) failures; never raises."""
    try:
        h = hashlib.sha256()
        for f in KANI_FILES:
            h.update(open(os.path.join(REPO, f), 'rb').read())
        cur = h.hexdigest()[:20]
        rec = {}
        rp = os.path.join(KANI_SRC, 'verified.json')
        if os.path.exists(rp):
            rec = json.load(open(rp))
        info = dict(source_hash=cur, recorded_hash=rec.get('source_hash'), recorded=rec.get('summary'))
        if tier != 'thorough' and rec.get('source_hash') == cur and not os.environ.get('VERIF_KANI'):
            info['ran'] = False
            info['note'] = 'sources unchanged since the recorded successful run; Kani runs at the thorough tier and whenever these files change'
            stats['bmc_support'] = info
            return []
        d = os.path.join(CACHE, 'kani-shadow')
        shutil.rmtree(d, ignore_errors=True)
        shutil.copytree(KANI_SRC, d, ignore=shutil.ignore_patterns('target', 'verified.json'))
        toml = open(os.path.join(d, 'Cargo.toml')).read().replace('path = "/repo"', f'path = "{REPO}"')
        open(os.path.join(d, 'Cargo.toml'), 'w').write(toml)
        t0 = time.time()
        rc, out = sh('cargo kani 2>&1', cwd=d, timeout=3600, env={'CARGO_TARGET_DIR': os.path.join(CACHE, 'kani-target')})
        m = re.search(r'Complete - (\d+) successfully verified harnesses, (\d+) failures, (\d+) total', out)
        info.update(ran=True, wall_s=round(time.time() - t0, 1), summary=m.group(0) if m else None, rc=rc)
        stats['bmc_support'] = info
        if m and int(m.group(2)) == 0 and int(m.group(1)) == int(m.group(3)) and rc == 0:
            if REPO == '/repo' and not SHADOW and rec.get('source_hash') != cur:
                pass      # the record is committed by hand (python3 lib/checklib.py is never allowed to write tracked files at run time)
            return []
        failed = re.findall(r'Checking harness ([\w:]+)[\s\S]*?VERIFICATION:- (\w+)', out)
        return [f'{n}: {v}' for n, v in failed if v != 'SUCCESSFUL'] or ['cargo kani did not complete: ' + out[-400:]]
    except Exception as e:       # supporting evidence only: a tooling problem is recorded, not raised
        stats['bmc_support'] = dict(error=str(e)[:300])
        return []


def run_property(prop, tier, seed):
    t0 = time.time()
    spec = PROPS[prop]
    stats = dict(evaluations=0, distinct=0, nontrivial=0, per_op={}, samples=[])
    violations = []
    lines = []

    def violation(replay, suffix=''):
        lines.append(f'VIOLATION property={prop} replay={replay}{suffix}')

    # --- Lean side -----------------------------------------------------------------------
    ok, logp = build_lean()
    obligations = discharged = 0
    details = []
    if not ok:
        rp = os.path.join(REPLAY_DIR, f'{prop}-lean-build.json')
        os.makedirs(os.path.dirname(rp), exist_ok=True)
        json.dump(dict(property=prop, broken='lake build', log=logp, tail=open(logp).read()[-3000:]), open(rp, 'w'), indent=1)
        violation(rp, ' no-failing-input-found')
    else:
        hits = source_scan()
        obligations, discharged, details = audit_theorems(prop)
        if hits or discharged != obligations:
            rp = os.path.join(REPLAY_DIR, f'{prop}-audit.json')
            os.makedirs(os.path.dirname(rp), exist_ok=True)
            json.dump(dict(property=prop, forbidden_tokens=hits, theorems=details), open(rp, 'w'), indent=1)
            violation(rp, ' no-failing-input-found')

    # --- thorough: independent re-check of the compiled property modules ---------------------
    leanchecker = None
    if ok and tier == 'thorough':
        mods = sorted('Chess.Props.' + os.path.basename(f)[:-5] for f in glob.glob(os.path.join(LEAN, 'Chess', 'Props', prop + '*.lean')))
        bad = []
        for mname in mods:
            rc_l, out_l = sh(f'lake env leanchecker {mname} 2>&1', cwd=LEAN, timeout=3600)
            if rc_l != 0:
                bad.append(dict(module=mname, output=out_l[-800:]))
        leanchecker = dict(modules=mods, failed=bad)
        if bad:
            rp = os.path.join(REPLAY_DIR, f'{prop}-leanchecker.json')
            os.makedirs(os.path.dirname(rp), exist_ok=True)
            json.dump(dict(property=prop, broken='leanchecker rejected a compiled property module', details=bad), open(rp, 'w'), indent=1)
            violation(rp, ' no-failing-input-found')

    # --- correspondence ------------------------------------------------------------------
    okh, logh = build_harness()
    rundirs = {}
    gen = {}
    timing = {}
    model_dis = []
    findings = []
    if not okh:
        rp = os.path.join(REPLAY_DIR, f'{prop}-harness-build.json')
        os.makedirs(os.path.dirname(rp), exist_ok=True)
        json.dump(dict(property=prop, broken='harness no longer builds against /repo (public API changed?)', log=logh,
                       tail=open(logh).read()[-3000:]), open(rp, 'w'), indent=1)
        violation(rp, ' no-failing-input-found')
    elif ok:
        # source drift (lib/drift.py): effort control only.  When a file / function the property is anchored in differs from
        # the recorded source, the randomised groups are run with one or two ADDITIONAL generator seeds.
        try:
            import drift
            drift_level, drift_info = drift.drift_for(prop, REPO)
        except Exception as e:      # the detector must never break a check
            drift_level, drift_info = 0, dict(error=str(e)[:200])
        stats['source_drift'] = dict(level=drift_level, **drift_info)
        runs = [(g, seed) for g in spec['groups']]
        if tier == 'quick' and not os.environ.get('VERIF_NO_DRIFT'):
            # one additional seed whatever the level (a check on an edited tree then costs at most about twice the usual)
            for k in range(min(drift_level, 1)):
                runs += [(g, seed + 1000 * (k + 1)) for g in spec['groups'] if g not in ('tables', 'univ', 'prims')]
        stats['seeds_run'] = sorted({sd for _, sd in runs})
        for g, sd in runs:
            try:
                rd, tm = run_group(g, tier, sd)
            except (RuntimeError, subprocess.TimeoutExpired) as e:
                rp = os.path.join(REPLAY_DIR, f'{prop}-{g}-run.json')
                os.makedirs(os.path.dirname(rp), exist_ok=True)
                json.dump(dict(property=prop, group=g, broken='harness/driver run failed or timed out', error=str(e)[:2000]), open(rp, 'w'), indent=1)
                violation(rp, ' no-failing-input-found')
                continue
            gk = g if sd == seed else f'{g}@seed{sd}'
            rundirs[gk] = rd
            timing[gk] = tm
            if sd == seed:
                try:
                    gen[g] = json.load(open(os.path.join(rd, 'gen.json')))
                except Exception:
                    gen[g] = {}
            f, md = compare_group(prop, gk, rd, stats)
            findings += f
            model_dis += md
        # corpus: discriminating inputs kept from earlier detections (one per seeded change), replayed on every run
        cpath = os.path.join(VERIF, 'corpus', f'{prop}.ops')
        if os.path.exists(cpath):
            try:
                rd, tm = run_group('replay', tier, seed, extra_env={'VERIF_REPLAY_OPS': cpath, 'VERIF_CORPUS': prop + ':' + hashlib.sha256(open(cpath, 'rb').read()).hexdigest()[:12]})
                timing['corpus'] = tm
                before = stats['evaluations']
                f, md = compare_group(prop, 'corpus', rd, stats)
                stats['corpus_ops'] = stats['evaluations'] - before
                findings += f
                model_dis += md
            except (RuntimeError, subprocess.TimeoutExpired) as e:
                log(f'[{prop}] corpus run failed: {e}')
        findings += extra_checks(prop, rundirs, stats)
        if prop == 'C18':
            for fail in kani_support(tier, stats):
                findings.append(Finding(prop, 'kani', 0, 'kani ' + fail, 'kani', 'harness', fail, 'VERIFICATION SUCCESSFUL', None, 'corr', []))

    # --- verdicts ------------------------------------------------------------------------
    known_open, known_fixed = load_known()
    reported = 0
    nviol = 0
    seen_keys = set()
    for f in findings:
        matched = None
        for k in known_open:
            if k['prop'] == prop and k['match'] in f.op_line:
                matched = k
        if matched:
            msg = f"KNOWN-FINDING: property={prop} {matched['what']}"
            if msg not in lines:
                lines.append(msg)
            continue
        nviol += 1
        sig = (f.op, f.key)
        if sig in seen_keys and reported >= 3:
            continue
        seen_keys.add(sig)
        if reported < 6:
            rp = write_replay(f, tier, seed)
            violation(rp, '' if f.kind == 'decisive' else ' no-failing-input-found')
            reported += 1
    rc = 0
    if any(l.startswith('VIOLATION') for l in lines):
        rc = 1
    if model_dis:
        # the model disagrees with the specification although the implementation agrees with one of them:
        # a defect of /verif, never of /repo.  Reported apart, exit 2 unless there is a real violation as well.
        f = model_dis[0]
        rp = write_replay(f, tier, seed)
        lines.append(f'MODEL-DISAGREEMENT property={prop} replay={rp} count={len(model_dis)}')
        if rc == 0:
            rc = 2

    # --- evidence ------------------------------------------------------------------------
    wall = time.time() - t0
    me = manifest_entry(prop) or {}
    level = (me.get('level_claimed') or {}).get('category', 'proof')
    reg = registry().get(prop, {})
    cov = dict(
        obligations=obligations, discharged=discharged,
        checker_cmd='cd /verif/chess && lake build Chess cvdriver && lake env lean <Audit: #print axioms of every registered theorem>',
        trusted_base=TRUSTED_BASE,
        theorems=details, partial=reg.get('partial', []), not_yet_proved=reg.get('open', []),
        evaluations=stats['evaluations'], distinct_nontrivial=stats['nontrivial'],
        rule='one evaluation = one op line executed by the real library and by the Lean model/spec and compared key by key; '
             'distinct = distinct op lines (input incl. dumped position); non-trivial = the implementation did not answer err/illegal/panic/empty',
        samples=stats['samples'][:6] or [dict(note='no op of this property was produced')],
        per_op=stats['per_op'], groups=list(spec['groups']), timing=timing, generator=gen,
        model_disagreements=len(model_dis), exhaustive=bool(reg.get('exhaustive_tie', False)),
    )
    if leanchecker is not None:
        cov['leanchecker'] = leanchecker
    for k in ('transposition_keys', 'distinct_moves_roundtripped', 'invalid_positions', 'key_table', 'corpus_ops', 'rx_patterns_not_found', 'source_drift', 'seeds_run', 'bmc_support'):
        if k in stats:
            cov[k] = stats[k]
    if level != 'proof' or obligations == 0:
        cov['explanation'] = 'correspondence (differential) run between the implementation and the Lean model/spec; no closed theorem registered yet'
    write_evidence(prop, tier, seed, level if obligations > 0 else 'other', cov, wall, nviol,
                   ['see coverage.trusted_base'] + reg.get('assumes', []))
    for l in lines:
        print(l)
    log(f'[{prop}] tier={tier} seed={seed} evaluations={stats["evaluations"]} findings={nviol} model_disagreements={len(model_dis)} '
        f'obligations={discharged}/{obligations} wall={wall:.1f}s rc={rc}')
    sys.stdout.flush()
    return rc


def run_replay(prop, path):
    body = json.load(open(path))
    ops = (body.get('session_ops') or []) if body.get('full_op', '').startswith('g.') else []
    if not ops:
        ops = [body['full_op']]
    os.makedirs(os.path.join(CACHE, 'replay'), exist_ok=True)
    opsfile = os.path.join(CACHE, 'replay', 'ops-in.txt')
    open(opsfile, 'w').write('\n'.join(ops) + '\n')
    ok, _ = build_harness()
    ok2, _ = build_lean()
    if not (ok and ok2):
        print('build failed')
        return 2
    rd, _ = run_group('replay', body.get('tier', 'quick'), body.get('seed', 1), extra_env={'VERIF_REPLAY_OPS': opsfile}, force=True)
    stats = dict(evaluations=0, distinct=0, nontrivial=0, per_op={}, samples=[])
    f, md = compare_group(prop, 'replay', rd, stats)
    for x in f:
        print(f'REPLAY-DIFF property={prop} op={x.op} key={x.key}\n  impl ={short(x.impl, 300)}\n  model={short(x.m1, 300)}\n  spec ={short(x.m0, 300)}')
    if f:
        print(f'VIOLATION property={prop} replay={path}')
        return 1
    print('replay: no difference on the current tree')
    return 0


def main(argv):
    if not argv or argv[0] not in PROPS:
        print(__doc__ or 'usage: check <id> [--tier quick|thorough] [--replay path]')
        return 2
    prop = argv[0]
    tier = os.environ.get('VERIF_TIER', 'quick')
    seed = int(os.environ.get('VERIF_SEED', '1') or 1)
    replay = None
    i = 1
    while i < len(argv):
        if argv[i] == '--tier':
            tier = argv[i + 1]; i += 2
        elif argv[i] == '--replay':
            replay = argv[i + 1]; i += 2
        else:
            i += 1
    if replay:
        return run_replay(prop, replay)
    return run_property(prop, tier, seed)
