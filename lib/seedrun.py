#!/usr/bin/env python3
"""seedrun.py <seed-id> [prop ...]  — apply /verif/seeded/<seed-id>/patch.diff to /repo, run the quick checks of the
listed properties (default: all 20), record which raise a VIOLATION, and ALWAYS undo the patch afterwards.
Writes /verif/seeded/<seed-id>/detect.json."""
import sys, os, subprocess, json, time, re
sid = sys.argv[1]
props = sys.argv[2:] or [f'C{i:02d}' for i in range(1, 21)]
d = f'/verif/seeded/{sid}'
patch = f'{d}/patch.diff'
assert subprocess.run(['git', '-C', '/repo', 'status', '--porcelain', '--untracked-files=no'], capture_output=True, text=True).stdout.strip() == '', '/repo not clean'
r = subprocess.run(['git', '-C', '/repo', 'apply', patch])
assert r.returncode == 0, 'patch does not apply'
res = {}
try:
    for p in props:
        t0 = time.time()
        q = subprocess.run(['./check', p, '--tier', os.environ.get('SEED_TIER', 'quick')], cwd='/verif', capture_output=True, text=True)
        viol = [l for l in q.stdout.split('\n') if l.startswith('VIOLATION')]
        md = [l for l in q.stdout.split('\n') if l.startswith('MODEL-DISAGREEMENT')]
        res[p] = dict(rc=q.returncode, violations=viol[:3], n_violation_lines=len(viol), model_disagreement=md[:1], wall_s=round(time.time() - t0, 1),
                      tail=q.stderr.strip().split('\n')[-1][:300])
        print(sid, p, 'rc', q.returncode, len(viol), 'violation lines', flush=True)
finally:
    subprocess.run(['git', '-C', '/repo', 'checkout', '--', '.'])
old = {}
if os.path.exists(f'{d}/detect.json'):
    old = json.load(open(f'{d}/detect.json')).get('results', {})
old.update(res)
json.dump(dict(seed=sid, results=old, detected_by=sorted(p for p, v in old.items() if v['rc'] == 1)), open(f'{d}/detect.json', 'w'), indent=1)
print(sid, 'detected by', sorted(p for p, v in old.items() if v['rc'] == 1))
