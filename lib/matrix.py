#!/usr/bin/env python3
"""matrix.py [--slots N] [--props C01,C02,...] <dir> [<dir> ...]

Runs the quick checks against patched copies of the library WITHOUT touching /repo, several at a time, against a FROZEN
snapshot of the machinery (so /verif can be edited meanwhile).  Each <dir> holds a `patch.diff` against /repo HEAD:
  /verif/seeded/<id>    -> writes <dir>/detect.json   (detected_by = checks that exit 1 with a VIOLATION line)
  /verif/harmless/<id>  -> writes <dir>/result.json   (false_alarms = checks that exit non-zero)
  /verif/mutants/<id>   -> writes <dir>/detect.json
The snapshot (/tmp/vsnap-<pid>) holds harness/, lib/, check, corpus/, MANIFEST.json, known_findings.txt and the compiled
driver; slot i works in the git worktree /tmp/mslot<i> (created from /repo HEAD, removed at the end) with cache /tmp/mcache<i>.
The registered checks themselves are unchanged: they are the same ./check commands, run with VERIF_ROOT / VERIF_REPO /
VERIF_CACHE / VERIF_DRIVER pointing at the snapshot, the slot worktree, the slot cache and the frozen driver (lib/checklib.py).
"""
import sys, os, subprocess, json, time, shutil, threading, queue

ALL = [f'C{i:02d}' for i in range(1, 21)]


def sh(cmd, **kw):
    return subprocess.run(cmd, capture_output=True, text=True, **kw)


def main():
    args = sys.argv[1:]
    slots, props = 4, ALL
    outname = None
    dirs = []
    i = 0
    while i < len(args):
        if args[i] == '--slots':
            slots = int(args[i + 1]); i += 2
        elif args[i] == '--props':
            props = args[i + 1].split(','); i += 2
        elif args[i] == '--out':
            outname = args[i + 1]; i += 2
        else:
            dirs.append(os.path.abspath(args[i])); i += 1
    snap = f'/tmp/vsnap-{os.getpid()}'
    os.makedirs(snap)
    for name in ('harness', 'lib', 'corpus'):
        shutil.copytree(f'/verif/{name}', f'{snap}/{name}', ignore=shutil.ignore_patterns('__pycache__', 'target'))
    for name in ('check', 'MANIFEST.json', 'known_findings.txt'):
        shutil.copy(f'/verif/{name}', f'{snap}/{name}')
    shutil.copy('/verif/chess/.lake/build/bin/cvdriver', f'{snap}/cvdriver')
    head = sh(['git', '-C', '/verif', 'rev-parse', '--short', 'HEAD']).stdout.strip()
    dirty = bool(sh(['git', '-C', '/verif', 'status', '--porcelain', '--untracked-files=no']).stdout.strip())
    q = queue.Queue()
    for d in dirs:
        q.put(d)
    lock = threading.Lock()

    def worker(k):
        wt, cache = f'/tmp/mslot{os.getpid()}_{k}', f'/tmp/mcache{os.getpid()}_{k}'
        sh(['git', '-C', '/repo', 'worktree', 'remove', '--force', wt])
        shutil.rmtree(wt, ignore_errors=True)
        r = sh(['git', '-C', '/repo', 'worktree', 'add', '--detach', wt, 'HEAD'])
        if r.returncode != 0:
            print('cannot create worktree', wt, r.stderr, flush=True)
            return
        os.makedirs(cache, exist_ok=True)
        if os.path.isdir('/verif/.cache/audit') and not os.path.isdir(f'{cache}/audit'):
            shutil.copytree('/verif/.cache/audit', f'{cache}/audit')
        env = dict(os.environ, VERIF_ROOT=snap, VERIF_REPO=wt, VERIF_CACHE=cache, VERIF_DRIVER=f'{snap}/cvdriver',
                   VERIF_EVIDENCE=f'{cache}/evidence', VERIF_REPLAYS=f'{cache}/replays')
        while True:
            try:
                d = q.get_nowait()
            except queue.Empty:
                break
            sid = os.path.basename(d)
            sh(['git', '-C', wt, 'checkout', '-q', '--', '.'])
            sh(['git', '-C', wt, 'clean', '-fdq', 'src'])
            if sh(['git', '-C', wt, 'apply', f'{d}/patch.diff']).returncode != 0:
                with lock:
                    print(sid, 'PATCH DOES NOT APPLY', flush=True)
                continue
            shutil.rmtree(f'{cache}/replays', ignore_errors=True)
            res = {}
            for p in props:
                t0 = time.time()
                r = sh([f'{snap}/check', p, '--tier', 'quick'], cwd=snap, env=env)
                viol = [l for l in r.stdout.split('\n') if l.startswith('VIOLATION')]
                md = [l for l in r.stdout.split('\n') if l.startswith('MODEL-DISAGREEMENT')]
                build_broken = any('harness-build' in l or 'lean-build' in l for l in viol)
                res[p] = dict(rc=r.returncode, violations=viol[:3], n_violation_lines=len(viol), model_disagreement=md[:1],
                              wall_s=round(time.time() - t0, 1), tail=r.stderr.strip().split('\n')[-1][:300], mode='matrix',
                              build_broken=build_broken)
            det = sorted(p for p, v in res.items() if v['rc'] == 1)
            alarms = sorted(p for p, v in res.items() if v['rc'] != 0)
            kind = os.path.basename(os.path.dirname(d))
            meta = dict(verif_commit=head + ('+dirty' if dirty else ''), ran='lib/matrix.py (frozen snapshot of /verif, slot worktree of /repo HEAD + patch.diff, all quick checks)')
            if kind == 'harmless':
                json.dump(dict(id=sid, results=res, false_alarms=alarms, **meta), open(f'{d}/result.json', 'w'), indent=1)
            else:
                json.dump(dict(seed=sid, results=res, detected_by=det, **meta), open(f'{d}/{outname or "detect.json"}', 'w'), indent=1)
            with lock:
                print(sid, 'detected by' if kind != 'harmless' else 'ALARMS', det if kind != 'harmless' else alarms, flush=True)
        sh(['git', '-C', '/repo', 'worktree', 'remove', '--force', wt])
        shutil.rmtree(cache, ignore_errors=True)

    ts = [threading.Thread(target=worker, args=(k,)) for k in range(slots)]
    for t in ts:
        t.start()
    for t in ts:
        t.join()
    shutil.rmtree(snap, ignore_errors=True)


if __name__ == '__main__':
    main()
