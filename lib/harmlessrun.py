#!/usr/bin/env python3
"""harmlessrun.py <id> [prop ...] — apply /verif/harmless/<id>/patch.diff (a behaviour-preserving change) to /repo, run the quick
checks, record any alarm (exit != 0 or a VIOLATION line = FALSE ALARM), always undo.  Writes harmless/<id>/result.json."""
import sys, os, subprocess, json, time
hid = sys.argv[1]
props = sys.argv[2:] or [f'C{i:02d}' for i in range(1, 21)]
d = f'/verif/harmless/{hid}'
assert subprocess.run(['git', '-C', '/repo', 'status', '--porcelain', '--untracked-files=no'], capture_output=True, text=True).stdout.strip() == '', '/repo not clean'
assert subprocess.run(['git', '-C', '/repo', 'apply', f'{d}/patch.diff']).returncode == 0
res = {}
try:
    for p in props:
        t0 = time.time()
        q = subprocess.run(['./check', p, '--tier', 'quick'], cwd='/verif', capture_output=True, text=True)
        lines = [l for l in q.stdout.split('\n') if l.startswith(('VIOLATION', 'MODEL-DISAGREEMENT'))]
        res[p] = dict(rc=q.returncode, alarm_lines=lines[:3], wall_s=round(time.time() - t0, 1), tail=q.stderr.strip().split('\n')[-1][:300])
        print(hid, p, 'rc', q.returncode, lines[:1], flush=True)
finally:
    subprocess.run(['git', '-C', '/repo', 'checkout', '--', '.'])
json.dump(dict(id=hid, results=res, false_alarms=sorted(p for p, v in res.items() if v['rc'] != 0)), open(f'{d}/result.json', 'w'), indent=1)
print(hid, 'FALSE ALARMS:', sorted(p for p, v in res.items() if v['rc'] != 0))
