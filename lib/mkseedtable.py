#!/usr/bin/env python3
"""Regenerate the table of DESIGN.md section 11 from seeded/*/meta.json (run lib/seedmeta.py first)."""
import json, glob, os, re
rows = []
for d in sorted(glob.glob('/verif/seeded/*')):
    mp = os.path.join(d, 'meta.json')
    if not os.path.exists(mp):
        continue
    m = json.load(open(mp))
    det = m.get('detected_by') or []
    # a "detection" that is only a broken harness build is not a detection of the property
    cr = m.get('checks_run') or {}
    own = m['breaks_property']
    note = '' if own in det else f'own check misses it: {own}'
    rows.append(f"| {m['id']} | {m['needs_to_manifest']} | {', '.join(det) if det else '— (none)'} | {note} |")
p = '/verif/DESIGN.md'
s = open(p).read()
head = '| seed | what it breaks / needs | caught by (quick tier) | note |\n|---|---|---|---|\n'
a = s.index(head) + len(head)
b = s.index('\n\n', a)
s = s[:a] + '\n'.join(rows) + s[b:]
open(p, 'w').write(s)
print('seed table regenerated:', len(rows), 'rows;', sum(1 for r in rows if 'own check misses' in r), 'with own-check miss')
