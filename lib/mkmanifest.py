#!/usr/bin/env python3
"""Regenerate /verif/MANIFEST.json from the property table below and chess/Chess/Props/registry.json."""
import json, os
V = '/verif'
reg = json.load(open(f'{V}/chess/Chess/Props/registry.json'))
props = [json.loads(l) for l in open(f'{V}/properties.jsonl')]

TIE = {
 'C01': 'legal-move set (sorted multiset) and castling availability of every visited position: implementation vs model M1 vs declarative spec M0 (legality as a filter over the move universe)',
 'C02': 'every field of the successor of spec-legal moves: implementation vs M1 vs Spec.apply; non-mutating/in-place/unchecked forms compared',
 'C03': 'the complete 147,458-value move universe per sampled position: accepted set, apply/legality agreement, panics; error and unchanged position on rejected moves',
 'C04': 'terminal flag and status of every visited position (incrementally maintained value vs recomputation by M1 vs Spec.status)',
 'C05': 'check and pin masks of every visited position (incrementally maintained value vs recomputation by M1 vs Spec.checkers/pinnedSet)',
 'C06': 'per-square queries and the representation invariant evaluated on every dumped position and every successor',
 'C07': 'all 785 keys dumped from the running implementation vs the committed table whose kernel check is keys_good; stored hash of every successor vs M1 incremental hash vs spec XOR of feature keys; transposition probes',
 'C08': 'as_fen text, from_fen round trip on all 12 fields, set-up path; builder parse/re-print on canonical and arbitrary texts',
 'C09': 'acceptance/rejection class and resulting position for valid positions and every single-defect corruption',
 'C10': 'exhaustive short strings over an alphabet with multi-byte characters plus grammar/mutation strings: the implementation must answer ok or err (never panic), and agree with the total model parsers',
 'C11': 'status and occurrence counters of every history position after every action of generated games vs M1 vs key-based counting in M0',
 'C12': 'outcome class, status, tag, history length and position after every action of exhaustive short and random long action sequences vs M1 vs Spec.step',
 'C13': 'rendered history text, ply lookup, per-move flags and the position chain after generated games (both first movers, empty history)',
 'C14': 'SAN text and flags of every legal move of every visited position vs M1 vs Spec.san; pairwise distinctness; error on an illegal move',
 'C15': 'export text (tags exactly, move section as token list) vs M1; import(export) round trip on the implementation itself for games ended every possible way',
 'C16': 'all 147,458 move values printed and re-parsed by the implementation and by M1',
 'C17': 'every entry of every public table (rays, knight, king, bishop, rook, queen, pawn push/double/capture per colour, 64x64 between) vs M1',
 'C18': 'exhaustive conversion tables of every primitive type; bitboard iterator/count/lowest/highest on singletons, pairs, rank/file masks and random patterns',
 'C19': 'metamorphic run on the implementation alone: colour-flipped (and, without rights, file-mirrored) position gives mirrored legal moves, masks, status and successors',
 'C20': 'ANSI-stripped straight and flipped renderings of visited positions (colour forced on and off), bitboard grids, all status sentences vs M1',
}
LEVEL_TEXT = {
 True: 'Lean 4 theorems about the hand-written model (kernel-checked, axioms audited on every run) + correspondence run tying the model to the current /repo tree: ',
 False: 'correspondence (differential) run between the implementation, the Lean model M1 and the declarative Lean spec M0; the Lean theorems for this property are not closed yet, so the claim is not proof-level: ',
}
checks = []
for p in props:
    i = p['id']
    r = reg.get(i, {})
    has = bool(r.get('theorems'))
    proved = '; '.join(r.get('summary', [])) if r.get('summary') else ''
    checks.append(dict(
        property_id=i,
        quick_cmd=f'./check {i} --tier quick',
        thorough_cmd=f'./check {i} --tier thorough',
        evidence_file=f'/verif/evidence/{i}.json',
        replay_cmd_template=f'./check {i} --replay {{path}}',
        engine='lean-correspondence',
        level_claimed=dict(category='proof' if has else 'other',
                           text=LEVEL_TEXT[has] + (proved + ' — ' if proved else '') + 'tie: ' + TIE[i],
                           design_ref=f'DESIGN.md section 7 ({i})'),
        level_note=('Trusted: Lean kernel + {propext, Classical.choice, Quot.sound}; the model is hand-written and tied to the code by a '
                    + ('complete (exhaustive) ' if r.get('exhaustive_tie') else 'sampled ') + 'correspondence run; '
                    + ('partial: ' + '; '.join(r['partial']) + '; ' if r.get('partial') else '')
                    + ('assumes: ' + '; '.join(r['assumes']) if r.get('assumes') else '')).strip(),
        technique='Lean 4 theorem proving over a hand-written model + differential correspondence (Rust harness vs compiled Lean driver)',
    ))
m = dict(
    version=1,
    setup_cmd='cd /verif/chess && lake build Chess cvdriver && cd /verif/harness && CARGO_NET_OFFLINE=true cargo build --release --offline',
    hooks=dict(guard='libchess_verif', enable='no hooks are needed: every observation goes through the public API of libchess',
               baseline_off_cmd='cd /repo && cargo test --workspace --no-fail-fast --offline', source_commits=[], add_only=True),
    engines=[dict(name='lean-correspondence', path='/verif/check', serves_properties=[p['id'] for p in props],
                  kind_free_text='Lean 4 model/spec/theorems (chess/), Rust harness (harness/), compiled Lean driver, Python comparer (lib/checklib.py)')],
    checks=checks,
    notes='Model M1 and spec M0 in /verif/chess; theorem registry chess/Chess/Props/registry.json; protocol PROTOCOL.md; design DESIGN.md.',
    not_applicable=[],
)
json.dump(m, open(f'{V}/MANIFEST.json', 'w'), indent=1)
print('checks', len(checks), 'proof', sum(1 for c in checks if c['level_claimed']['category'] == 'proof'))
