#!/usr/bin/env python3
"""coverage.py [tier] [group ...] — how much of /repo/src the correspondence run actually executes.

Not a check (it decides nothing): it measures generator quality.  The harness is rebuilt with
`-C instrument-coverage` (nightly toolchain, its own llvm-profdata / llvm-cov) against the working tree of
/repo, every harness group is run at the given tier, the profiles are merged, and per-file line / region
coverage of the library sources plus the list of NEVER-executed source lines (outside `#[cfg(test)]` modules)
is written to /verif/coverage/summary.json and /verif/coverage/uncovered.txt.  DESIGN.md section 12 discusses
each uncovered region: dead code, a panic arm proved unreachable, or a generator gap that was then closed.
"""
import sys, os, subprocess, json, re, glob, shutil

VERIF = '/verif'
REPO = os.environ.get('VERIF_REPO', '/repo')
CACHE = os.path.join(VERIF, '.cache')
TGT = os.path.join(CACHE, 'cov-target')
PROF = os.path.join(CACHE, 'cov-prof')
OUT = os.path.join(VERIF, 'coverage')
NIGHTLY_BIN = '/root/.rustup/toolchains/nightly-x86_64-unknown-linux-gnu/lib/rustlib/x86_64-unknown-linux-gnu/bin'
GROUPS = ['tables', 'prims', 'zobrist', 'legal', 'moves', 'univ', 'fen', 'parse', 'san', 'game', 'pgn', 'render', 'flip']


def sh(cmd, **kw):
    e = dict(os.environ, CARGO_NET_OFFLINE='true')
    e.update(kw.pop('env', {}))
    return subprocess.run(cmd, shell=isinstance(cmd, str), env=e, text=True, capture_output=True, **kw)


def main():
    tier = sys.argv[1] if len(sys.argv) > 1 else 'quick'
    groups = sys.argv[2:] or GROUPS
    os.makedirs(OUT, exist_ok=True)
    shutil.rmtree(PROF, ignore_errors=True)
    os.makedirs(PROF)
    r = sh('cargo +nightly build --release --offline', cwd=os.path.join(VERIF, 'harness'),
           env={'RUSTFLAGS': '-C instrument-coverage', 'CARGO_TARGET_DIR': TGT,
                'LLVM_PROFILE_FILE': os.path.join(PROF, 'build-%p-%m.profraw')})   # build scripts are instrumented too: keep their profiles out of /repo
    if r.returncode != 0:
        print(r.stderr[-3000:])
        return 2
    hb = os.path.join(TGT, 'release', 'harness')
    for g in groups:
        d = os.path.join(PROF, 'out-' + g)
        os.makedirs(d, exist_ok=True)
        env = {'LLVM_PROFILE_FILE': os.path.join(PROF, f'{g}-%p.profraw')}
        r = sh([hb, g, tier, '1', d], env=env)
        print(g, 'rc', r.returncode, file=sys.stderr)
    # the corpus files are replayed by every check as well
    for c in sorted(glob.glob(os.path.join(VERIF, 'corpus', '*.ops'))):
        d = os.path.join(PROF, 'out-corpus-' + os.path.basename(c))
        os.makedirs(d, exist_ok=True)
        sh([hb, 'replay', tier, '1', d], env={'LLVM_PROFILE_FILE': os.path.join(PROF, 'corpus-%p.profraw'), 'VERIF_REPLAY_OPS': c})
    raws = glob.glob(os.path.join(PROF, '*.profraw'))
    pd = os.path.join(PROF, 'all.profdata')
    r = sh([os.path.join(NIGHTLY_BIN, 'llvm-profdata'), 'merge', '-sparse', '-o', pd] + raws)
    if r.returncode != 0:
        print(r.stderr[-2000:])
        return 2
    srcs = sorted(glob.glob(os.path.join(REPO, 'src', '**', '*.rs'), recursive=True))
    r = sh([os.path.join(NIGHTLY_BIN, 'llvm-cov'), 'export', '-format=text', '-instr-profile', pd, hb] + srcs)
    if r.returncode != 0:
        print(r.stderr[-2000:])
        return 2
    data = json.loads(r.stdout)['data'][0]
    summary = {}
    uncovered = []
    for f in data['files']:
        name = os.path.relpath(f['filename'], REPO)
        lines = open(f['filename']).read().split('\n')
        # first line of the `#[cfg(test)]` module (everything after it is test code)
        test_from = next((i + 1 for i, l in enumerate(lines) if l.strip() == '#[cfg(test)]'), len(lines) + 1)
        # segments: [line, col, count, hasCount, isRegionEntry, isGap]
        cov = {}
        for seg in f['segments']:
            ln, col, cnt, has, entry = seg[0], seg[1], seg[2], seg[3], seg[4]
            if has and entry and ln < test_from:
                cov.setdefault(ln, []).append(cnt)
        zero = sorted(l for l, cs in cov.items() if all(c == 0 for c in cs))
        hit = sorted(l for l, cs in cov.items() if any(c > 0 for c in cs))
        summary[name] = dict(region_entry_lines=len(cov), executed=len(hit), never_executed=len(zero),
                             llvm_lines=f['summary']['lines'], llvm_regions=f['summary']['regions'], llvm_functions=f['summary']['functions'])
        for l in zero:
            uncovered.append(f'{name}:{l}: {lines[l - 1].strip()[:110]}')
    tot = dict(region_entry_lines=sum(v['region_entry_lines'] for v in summary.values()),
               executed=sum(v['executed'] for v in summary.values()),
               never_executed=sum(v['never_executed'] for v in summary.values()))
    json.dump(dict(tier=tier, groups=groups, repo=REPO, note='library code outside #[cfg(test)] modules; a line counts as executed when at least one '
                   'coverage region starting on it was entered during the harness run (all groups + corpus)', total=tot, files=summary),
              open(os.path.join(OUT, 'summary.json'), 'w'), indent=1)
    open(os.path.join(OUT, 'uncovered.txt'), 'w').write('\n'.join(uncovered) + '\n')
    print(json.dumps(tot))
    return 0


if __name__ == '__main__':
    sys.exit(main())
