#!/usr/bin/env python3
"""seedpar.py <seed-id> <worktree> [prop ...] — like seedrun.py but WITHOUT touching /repo: the patch is applied in the scratch
worktree, and the very same ./check commands run with VERIF_REPO=<worktree> and a private cache / evidence / replay directory
(lib/checklib.py builds the harness from a shadow copy whose path dependency points at the worktree).  Several seeds can
therefore be evaluated at once.  Writes /verif/seeded/<seed-id>/detect.json (merging with earlier results)."""
import sys, os, subprocess, json, time, shutil
sid, wt = sys.argv[1], sys.argv[2]
props = sys.argv[3:] or [f'C{i:02d}' for i in range(1, 21)]
d = f'/verif/seeded/{sid}'
patch = f'{d}/patch.diff'
subprocess.run(['git', '-C', wt, 'checkout', '-q', '--', 'src'])
subprocess.run(['git', '-C', wt, 'clean', '-fdq', 'src'])
r = subprocess.run(['git', '-C', wt, 'apply', patch])
assert r.returncode == 0, 'patch does not apply'
cache = f'/tmp/vcache/{sid}'
os.makedirs(cache, exist_ok=True)
if os.path.isdir('/verif/.cache/audit') and not os.path.isdir(f'{cache}/audit'):
    shutil.copytree('/verif/.cache/audit', f'{cache}/audit')
env = dict(os.environ, VERIF_REPO=wt, VERIF_CACHE=cache, VERIF_EVIDENCE=f'{cache}/evidence', VERIF_REPLAYS=f'{cache}/replays')
res = {}
try:
    for p in props:
        t0 = time.time()
        q = subprocess.run(['./check', p, '--tier', os.environ.get('SEED_TIER', 'quick')], cwd='/verif', capture_output=True, text=True, env=env)
        viol = [l for l in q.stdout.split('\n') if l.startswith('VIOLATION')]
        md = [l for l in q.stdout.split('\n') if l.startswith('MODEL-DISAGREEMENT')]
        res[p] = dict(rc=q.returncode, violations=viol[:3], n_violation_lines=len(viol), model_disagreement=md[:1], wall_s=round(time.time() - t0, 1),
                      tail=q.stderr.strip().split('\n')[-1][:300], mode='worktree')
        print(sid, p, 'rc', q.returncode, len(viol), 'violation lines', flush=True)
finally:
    subprocess.run(['git', '-C', wt, 'checkout', '-q', '--', 'src'])
    subprocess.run(['git', '-C', wt, 'clean', '-fdq', 'src'])
old = {}
if os.path.exists(f'{d}/detect.json'):
    old = json.load(open(f'{d}/detect.json')).get('results', {})
old.update(res)
json.dump(dict(seed=sid, results=old, detected_by=sorted(p for p, v in old.items() if v['rc'] == 1)), open(f'{d}/detect.json', 'w'), indent=1)
print(sid, 'detected by', sorted(p for p, v in old.items() if v['rc'] == 1))
