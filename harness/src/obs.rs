//! Board dumps (`<raw>`, `<posobs>`) and the implementation observation of every board-level op.
//!
//! Convention for panics (PROTOCOL.md only says "a panic is the observation `panic`"): every
//! observation is assembled from independently guarded pieces; a piece whose library call
//! panicked prints the value `panic` for its key (`moves=panic`, `chk=panic`, ...).  Ops whose
//! protocol entry names an explicit panic class (`r=panic`, `b=panic`, ...) use that one.

use crate::util::*;
use libchess::errors::LibChessError;
use libchess::*;
use std::str::FromStr;

pub const PROMOS: [Option<PieceType>; 6] = [
    None,
    Some(PieceType::Knight),
    Some(PieceType::Bishop),
    Some(PieceType::Rook),
    Some(PieceType::Queen),
    Some(PieceType::King),
];

pub const UNIVERSE_SIZE: usize = 6 * 64 * 64 * 6 + 2;

#[inline]
pub fn sq(i: usize) -> Square { Square::new(i as u8).unwrap() }

#[inline]
pub fn pt(i: usize) -> PieceType { PieceType::from_index(i).unwrap() }

pub fn color_char(c: Color) -> char {
    match c {
        Color::White => 'w',
        Color::Black => 'b',
    }
}

pub fn piece_char(p: Piece) -> char {
    let c = match p.0 {
        PieceType::Pawn => 'P',
        PieceType::Knight => 'N',
        PieceType::Bishop => 'B',
        PieceType::Rook => 'R',
        PieceType::Queen => 'Q',
        PieceType::King => 'K',
    };
    match p.1 {
        Color::White => c,
        Color::Black => c.to_ascii_lowercase(),
    }
}

pub fn type_char(p: PieceType) -> char { piece_char(Piece(p, Color::White)) }

pub fn sq_opt(s: Option<Square>) -> String {
    match s {
        Some(s) => s.to_index().to_string(),
        None => "-".to_string(),
    }
}

/// Calls `f` guarded; `panic` when it panicked.
pub fn g(f: impl FnOnce() -> String) -> String { catch(f).unwrap_or_else(|| "panic".to_string()) }

/// The `<raw>` dump of a board through its public getters; `None` if any getter panicked.
pub fn raw(b: &ChessBoard) -> Option<String> {
    catch(|| {
        let pm: Vec<String> = (0..6).map(|k| hx(b.get_piece_type_mask(pt(k)).bits())).collect();
        format!(
            "{};{},{};{};{};{},{};{};{};{};{};{};{};{}",
            pm.join(","),
            hx(b.get_color_mask(Color::White).bits()),
            hx(b.get_color_mask(Color::Black).bits()),
            hx(b.get_combined_mask().bits()),
            color_char(b.get_side_to_move()),
            b.get_castle_rights(Color::White).to_index(),
            b.get_castle_rights(Color::Black).to_index(),
            sq_opt(b.get_en_passant()),
            hx(b.get_pin_mask().bits()),
            hx(b.get_check_mask().bits()),
            b.is_terminal() as u8,
            b.get_moves_since_capture_or_pawn_move(),
            b.get_move_number(),
            hx(b.get_hash()),
        )
    })
}

pub fn placement(b: &ChessBoard) -> String {
    (0..64).map(|i| b.get_piece_on(sq(i)).map_or('.', piece_char)).collect()
}

/// `<posobs>`; a single token `posobs=panic` if a getter panicked.
pub fn posobs(b: &ChessBoard) -> String {
    catch(|| {
        let pm: Vec<String> = (0..6).map(|k| hx(b.get_piece_type_mask(pt(k)).bits())).collect();
        format!(
            "pl={} pm={} cm={},{} comb={} stm={} cr={},{} ep={} pin={} chk={} term={} half={} full={} hash={}",
            placement(b),
            pm.join(","),
            hx(b.get_color_mask(Color::White).bits()),
            hx(b.get_color_mask(Color::Black).bits()),
            hx(b.get_combined_mask().bits()),
            color_char(b.get_side_to_move()),
            b.get_castle_rights(Color::White).to_index(),
            b.get_castle_rights(Color::Black).to_index(),
            sq_opt(b.get_en_passant()),
            hx(b.get_pin_mask().bits()),
            hx(b.get_check_mask().bits()),
            b.is_terminal() as u8,
            b.get_moves_since_capture_or_pawn_move(),
            b.get_move_number(),
            hx(b.get_hash()),
        )
    })
    .unwrap_or_else(|| "posobs=panic".to_string())
}

/// Decoded `<raw>` token (only the fields needed to rebuild the board).
pub struct RawFields {
    pub pieces: Vec<(Square, Piece)>,
    pub stm: Color,
    pub wr: CastlingRights,
    pub br: CastlingRights,
    pub ep: Option<Square>,
    pub half: usize,
    pub full: usize,
}

/// Parses a `<raw>` token.  The piece list is decoded from the masks: a man of type K and colour
/// c stands on every square of `pK & c-mask`; squares listed twice keep the last write (setup
/// semantics).  Fields pin/chk/term/hash/comb are ignored (they are derived by `setup`).
pub fn parse_raw(tok: &str) -> Option<RawFields> {
    let f: Vec<&str> = tok.split(';').collect();
    if f.len() != 12 {
        return None;
    }
    let pm: Vec<u64> = f[0].split(',').map(|x| u64::from_str_radix(x, 16).ok()).collect::<Option<_>>()?;
    let cm: Vec<u64> = f[1].split(',').map(|x| u64::from_str_radix(x, 16).ok()).collect::<Option<_>>()?;
    if pm.len() != 6 || cm.len() != 2 {
        return None;
    }
    let stm = match f[3] {
        "w" => Color::White,
        "b" => Color::Black,
        _ => return None,
    };
    let rr: Vec<usize> = f[4].split(',').map(|x| x.parse().ok()).collect::<Option<_>>()?;
    if rr.len() != 2 {
        return None;
    }
    let wr = CastlingRights::from_index(rr[0]).ok()?;
    let br = CastlingRights::from_index(rr[1]).ok()?;
    let ep = if f[5] == "-" { None } else { Some(Square::new(f[5].parse::<u8>().ok()?).ok()?) };
    let half = f[9].parse().ok()?;
    let full = f[10].parse().ok()?;
    let mut pieces = Vec::new();
    for (ci, c) in [Color::White, Color::Black].into_iter().enumerate() {
        for k in 0..6 {
            let m = pm[k] & cm[ci];
            for i in 0..64 {
                if m >> i & 1 == 1 {
                    pieces.push((sq(i), Piece(pt(k), c)));
                }
            }
        }
    }
    Some(RawFields { pieces, stm, wr, br, ep, half, full })
}

pub fn build_from_raw(tok: &str) -> Option<ChessBoard> {
    let r = parse_raw(tok)?;
    catch(|| ChessBoard::setup(&r.pieces, r.stm, r.wr, r.br, r.ep, r.half, r.full).ok()).flatten()
}

/// All universe moves in (pt, src, dst, promotion) order followed by O-O and O-O-O.
pub fn universe() -> Vec<BoardMove> {
    let mut v = Vec::with_capacity(UNIVERSE_SIZE);
    for p in 0..6 {
        for s in 0..64 {
            for d in 0..64 {
                for pr in PROMOS {
                    v.push(BoardMove::MovePiece(PieceMove::new(pt(p), sq(s), sq(d), pr).unwrap()));
                }
            }
        }
    }
    v.push(BoardMove::CastleKingSide);
    v.push(BoardMove::CastleQueenSide);
    v
}

pub fn move_text(m: &BoardMove) -> String { g(|| format!("{m}")) }

pub fn sorted_join(mut v: Vec<String>) -> String {
    if v.is_empty() {
        return "-".to_string();
    }
    v.sort_by(|a, b| a.as_bytes().cmp(b.as_bytes()));
    v.join(",")
}

// ---------------------------------------------------------------------------------------------
// Board-level ops
// ---------------------------------------------------------------------------------------------

pub fn obs_zob() -> String {
    g(|| {
        let z = &*ZOBRIST_TABLES;
        let mut v = Vec::with_capacity(785);
        v.push(hx(z.get_black_to_move_value()));
        for c in [Color::White, Color::Black] {
            for k in 0..6 {
                for s in 0..64 {
                    v.push(hx(z.get_piece_square_value(Piece(pt(k), c), sq(s))));
                }
            }
        }
        for c in [Color::White, Color::Black] {
            for r in 0..4 {
                v.push(hx(z.get_castling_rights_value(CastlingRights::from_index(r).unwrap(), c)));
            }
        }
        for s in 0..8 {
            v.push(hx(z.get_en_passant_value(sq(s))));
        }
        v.join(",")
    })
}

pub fn obs_legal(b: &ChessBoard) -> String {
    let moves = g(|| sorted_join(b.get_legal_moves().iter().map(|m| format!("{m}")).collect()));
    let castle = g(|| b.castling_is_available_on_board(None).to_index().to_string());
    format!("moves={moves} castle={castle} c03={}", near_universe_diff(b))
}

/// C03 on the implementation itself (the property's own predicate): over the *near universe* of the position — every
/// own man as (its real type, and one wrong type) x every destination x promotion {none, Q, N, K}, plus both
/// castlings — `is_legal_move(m)` and `make_move(m).is_ok()` must both equal `m in get_legal_moves()`.
/// Returns "-" when they agree everywhere (what theorem C03_iff says of the model), else the offending moves.
pub fn near_universe_diff(b: &ChessBoard) -> String {
    let legal: Vec<BoardMove> = match catch(|| b.get_legal_moves()) {
        Some(l) => l,
        None => return "panic".to_string(),
    };
    let stm = b.get_side_to_move();
    let mut bad: Vec<String> = Vec::new();
    let check = |m: BoardMove, bad: &mut Vec<String>| {
        let inl = legal.contains(&m);
        let il = catch(|| b.is_legal_move(&m));
        let mk = catch(|| b.make_move(&m).is_ok());
        if il != Some(inl) || mk != Some(inl) {
            if bad.len() < 8 {
                bad.push(format!("{}:{}{}{}", move_text(&m), inl as u8,
                    match il { Some(x) => (x as u8).to_string(), None => "p".into() },
                    match mk { Some(x) => (x as u8).to_string(), None => "p".into() }));
            }
        }
    };
    for s in 0..64usize {
        let on = catch(|| b.get_piece_on(sq(s))).flatten();
        let (t, c) = match on { Some(Piece(t, c)) => (t, c), None => continue };
        if c != stm { continue; }
        let wrong = if t == PieceType::Queen { PieceType::Rook } else { PieceType::Queen };
        for d in 0..64usize {
            for pr in [None, Some(PieceType::Queen), Some(PieceType::Knight), Some(PieceType::King)] {
                if let Ok(pm) = PieceMove::new(t, sq(s), sq(d), pr) {
                    check(BoardMove::MovePiece(pm), &mut bad);
                }
            }
            if let Ok(pm) = PieceMove::new(wrong, sq(s), sq(d), None) {
                check(BoardMove::MovePiece(pm), &mut bad);
            }
        }
    }
    check(BoardMove::CastleKingSide, &mut bad);
    check(BoardMove::CastleQueenSide, &mut bad);
    if bad.is_empty() { "-".to_string() } else { bad.join(",") }
}

pub fn obs_mv(b: &ChessBoard, m: &BoardMove) -> String {
    let before = *b;
    let pre = raw(b);
    let res = catch(|| b.make_move(m));
    match res {
        None => "r=panic".to_string(),
        Some(Ok(nb)) => {
            let s1 = catch(|| {
                let mut c = before;
                let ok = c.make_move_mut(m).is_ok();
                ok && c == nb
            })
            .unwrap_or(false);
            let s2 = catch(|| unsafe { before.make_move_unchecked(m) } == nb).unwrap_or(false);
            let s3 = catch(|| *b == before).unwrap_or(false) && pre.is_some() && raw(b) == pre;
            // C03 on the successor OBJECT returned by make_move (a stale cached flag shows only there, not on a rebuilt board)
            format!("r=ok {} same={} sc03={}", posobs(&nb), (s1 && s2 && s3) as u8, near_universe_diff(&nb))
        }
        Some(Err(LibChessError::IllegalMoveDetected)) => {
            let s = catch(|| {
                let mut c = before;
                let err = c.make_move_mut(m).is_err();
                err && c == before
            })
            .unwrap_or(false);
            format!("r=illegal same={}", s as u8)
        }
        Some(Err(_)) => "r=other".to_string(),
    }
}

pub fn obs_univ(b: &ChessBoard, uni: &[BoardMove]) -> String {
    let mut acc = Vec::new();
    let mut appdiff = 0usize;
    let mut panics = 0usize;
    for m in uni {
        let il = catch(|| b.is_legal_move(m));
        let mk = catch(|| b.make_move(m).is_ok());
        match (il, mk) {
            (Some(a), Some(c)) => {
                if a {
                    acc.push(move_text(m));
                }
                if a != c {
                    appdiff += 1;
                }
            }
            (a, _) => {
                panics += 1;
                if a == Some(true) {
                    acc.push(move_text(m));
                }
            }
        }
    }
    format!("acc={} appdiff={} panics={} n={}", sorted_join(acc), appdiff, panics, uni.len())
}

pub fn status_text(s: BoardStatus) -> &'static str {
    match s {
        BoardStatus::Ongoing => "ongoing",
        BoardStatus::CheckMated(Color::White) => "mate:w",
        BoardStatus::CheckMated(Color::Black) => "mate:b",
        BoardStatus::TheoreticalDrawDeclared => "theo",
        BoardStatus::FiftyMovesDrawDeclared => "fifty",
        BoardStatus::Stalemate => "stale",
    }
}

pub fn obs_status(b: &ChessBoard) -> String {
    format!(
        "status={} term={}",
        g(|| status_text(b.get_status()).to_string()),
        g(|| (b.is_terminal() as u8).to_string())
    )
}

pub fn obs_masks(b: &ChessBoard) -> String {
    format!("chk={} pin={}", g(|| hx(b.get_check_mask().bits())), g(|| hx(b.get_pin_mask().bits())))
}

/// `inv` is interpreted as the getters' mutual consistency: get_piece_on agrees with
/// get_piece_type_on / get_piece_color_on / is_empty_square on every square, the six type masks
/// are pairwise disjoint and their union is the combined mask, the colour masks are disjoint and
/// their union is the combined mask, every square's (type, colour) agrees with the masks, and the
/// king squares hold a king of the right colour.  `1` when all hold, `0` otherwise.
pub fn obs_q(b: &ChessBoard) -> String {
    let pl = g(|| placement(b));
    let tl = g(|| (0..64).map(|i| b.get_piece_type_on(sq(i)).map_or('.', type_char)).collect());
    let cl = g(|| (0..64).map(|i| b.get_piece_color_on(sq(i)).map_or('.', color_char)).collect());
    let em = g(|| (0..64).map(|i| if b.is_empty_square(sq(i)) { '1' } else { '0' }).collect());
    let kw = g(|| b.get_king_square(Color::White).to_index().to_string());
    let kb = g(|| b.get_king_square(Color::Black).to_index().to_string());
    let inv = g(|| {
        let mut ok = true;
        let pm: Vec<u64> = (0..6).map(|k| b.get_piece_type_mask(pt(k)).bits()).collect();
        let cw = b.get_color_mask(Color::White).bits();
        let cb = b.get_color_mask(Color::Black).bits();
        let comb = b.get_combined_mask().bits();
        let mut uni = 0u64;
        for k in 0..6 {
            ok &= uni & pm[k] == 0;
            uni |= pm[k];
        }
        ok &= uni == comb && cw & cb == 0 && cw | cb == comb;
        for i in 0..64 {
            let s = sq(i);
            let bit = 1u64 << i;
            let t = b.get_piece_type_on(s);
            let c = b.get_piece_color_on(s);
            let p = b.get_piece_on(s);
            let e = b.is_empty_square(s);
            ok &= e == (comb & bit == 0);
            ok &= e == t.is_none() && e == c.is_none() && e == p.is_none();
            if let (Some(t), Some(c), Some(p)) = (t, c, p) {
                ok &= p.0 == t && p.1 == c;
                ok &= pm[t.to_index()] & bit != 0;
                ok &= (if c == Color::White { cw } else { cb }) & bit != 0;
            }
        }
        for c in [Color::White, Color::Black] {
            ok &= b.get_piece_on(b.get_king_square(c)) == Some(Piece(PieceType::King, c));
        }
        (ok as u8).to_string()
    });
    let inv = if inv == "panic" { "0".to_string() } else { inv };
    format!("pl={pl} tl={tl} cl={cl} em={em} kw={kw} kb={kb} inv={inv}")
}

pub fn piece_list(b: &ChessBoard) -> Vec<(Square, Piece)> {
    (0..64).filter_map(|i| b.get_piece_on(sq(i)).map(|p| (sq(i), p))).collect()
}

pub fn obs_fen(b: &ChessBoard) -> String {
    let fen = catch(|| b.as_fen());
    let fen_s = fen.as_ref().map_or("panic".to_string(), |f| f.replace(' ', "_"));
    let rt = match &fen {
        Some(f) => g(|| (ChessBoard::from_fen(f).map_or(false, |x| x == *b) as u8).to_string()),
        None => "panic".to_string(),
    };
    let setup = g(|| {
        let pcs = piece_list(b);
        let r = ChessBoard::setup(
            &pcs,
            b.get_side_to_move(),
            b.get_castle_rights(Color::White),
            b.get_castle_rights(Color::Black),
            b.get_en_passant(),
            b.get_moves_since_capture_or_pawn_move(),
            b.get_move_number(),
        );
        (r.map_or(false, |x| x == *b) as u8).to_string()
    });
    format!("fen={fen_s} rt={rt} setup={setup}")
}

pub fn err_kind(e: &LibChessError) -> &'static str {
    use LibChessError::*;
    match e {
        InvalidFENString { .. } => "fen",
        InvalidPositionColorsOverlap => "overlapc",
        InvalidPositionPieceTypeOverlap => "overlapt",
        InvalidBoardSelfNonConsistency => "noncons",
        InvalidBoardMultipleOneColorKings => "kings",
        InvalidBoardOpponentIsOnCheck => "oppcheck",
        InvalidBoardInconsistentEnPassant => "ep",
        InvalidBoardInconsistentCastlingRights => "castling",
        _ => "other",
    }
}

/// Returns (observation, class of the `c=` part: ok/err/panic).
pub fn obs_pfen(text: &str) -> (String, &'static str) {
    let b = match catch(|| BoardBuilder::from_str(text).map(|bb| format!("{bb}"))) {
        None => "panic".to_string(),
        Some(Ok(s)) => format!("ok:{}", s.replace(' ', "_")),
        Some(Err(_)) => "err".to_string(),
    };
    let (c, class) = match catch(|| ChessBoard::from_fen(text)) {
        None => ("panic".to_string(), "panic"),
        Some(Ok(board)) => (format!("ok {}", posobs(&board)), "ok"),
        Some(Err(e)) => (format!("err:{}", err_kind(&e)), "err"),
    };
    let gm = match catch(|| Game::from_fen(text).is_ok()) {
        None => "panic",
        Some(true) => "ok",
        Some(false) => "err",
    };
    (format!("b={b} c={c} g={gm}"), class)
}

pub fn obs_pmove(text: &str) -> (String, &'static str) {
    match catch(|| BoardMove::from_str(text)) {
        None => ("r=panic".to_string(), "panic"),
        Some(Err(_)) => ("r=err".to_string(), "err"),
        Some(Ok(m)) => {
            let rep = move_text(&m);
            let rr = g(|| (BoardMove::from_str(&rep).map_or(false, |x| x == m) as u8).to_string());
            (format!("r=ok:{rep} rr={rr}"), "ok")
        }
    }
}

fn idx_obs(r: Option<Result<usize, ()>>) -> (String, &'static str) {
    match r {
        None => ("r=panic".to_string(), "panic"),
        Some(Err(_)) => ("r=err".to_string(), "err"),
        Some(Ok(i)) => (format!("r=ok:{i}"), "ok"),
    }
}

pub fn obs_psq(t: &str) -> (String, &'static str) {
    idx_obs(catch(|| Square::from_str(t).map(|x| x.to_index()).map_err(|_| ())))
}
pub fn obs_pfile(t: &str) -> (String, &'static str) {
    idx_obs(catch(|| File::from_str(t).map(|x| x.to_index()).map_err(|_| ())))
}
pub fn obs_prank(t: &str) -> (String, &'static str) {
    idx_obs(catch(|| Rank::from_str(t).map(|x| x.to_index()).map_err(|_| ())))
}
pub fn obs_ppiece(t: &str) -> (String, &'static str) {
    idx_obs(catch(|| PieceType::from_str(t).map(|x| x.to_index()).map_err(|_| ())))
}

/// First universe value in (pt, src, dst, None) order rejected by `is_legal_move`.
pub fn first_illegal(b: &ChessBoard) -> Option<BoardMove> {
    for p in 0..6 {
        for s in 0..64 {
            for d in 0..64 {
                let m = BoardMove::MovePiece(PieceMove::new(pt(p), sq(s), sq(d), None).unwrap());
                if catch(|| b.is_legal_move(&m)) == Some(false) {
                    return Some(m);
                }
            }
        }
    }
    None
}

/// A legal move whose `MovePropertiesOnBoard::new` fails prints `move:!err:----` (or `!panic`).
pub fn obs_sanall(b: &ChessBoard) -> String {
    let legal = catch(|| b.get_legal_moves());
    let (sans, dup) = match legal {
        None => ("panic".to_string(), "0".to_string()),
        Some(ms) => {
            let mut items: Vec<(String, String)> = Vec::new();
            for m in &ms {
                let mt = move_text(m);
                let entry = match catch(|| MovePropertiesOnBoard::new(m, b)) {
                    None => "!panic:----".to_string(),
                    Some(Err(_)) => "!err:----".to_string(),
                    Some(Ok(p)) => {
                        let san = g(|| m.to_string(p));
                        let amb = match p.ambiguity_type {
                            DisplayAmbiguityType::ExtraFile => 'f',
                            DisplayAmbiguityType::ExtraRank => 'r',
                            DisplayAmbiguityType::ExtraSquare => 's',
                            DisplayAmbiguityType::Neither => 'n',
                        };
                        format!(
                            "{}:{}{}{}{}",
                            san,
                            if p.is_capture { 'c' } else { '-' },
                            if p.is_check { 'k' } else { '-' },
                            if p.is_checkmate { 'm' } else { '-' },
                            amb
                        )
                    }
                };
                items.push((mt, entry));
            }
            items.sort_by(|a, b| a.0.as_bytes().cmp(b.0.as_bytes()));
            let mut texts: Vec<&str> = items.iter().map(|(_, e)| e.split(':').next().unwrap()).collect();
            texts.sort();
            let dup = texts.windows(2).any(|w| w[0] == w[1] && !w[0].starts_with('!'));
            let s = if items.is_empty() {
                "-".to_string()
            } else {
                items.iter().map(|(m, e)| format!("{m}:{e}")).collect::<Vec<_>>().join(",")
            };
            (s, (dup as u8).to_string())
        }
    };
    let mut illegal = match first_illegal(b) {
        None => "ok".to_string(), // no rejected value at all: nothing to observe, cannot be `err`
        Some(m) => match catch(|| MovePropertiesOnBoard::new(&m, b).is_ok()) {
            None => "panic".to_string(),
            Some(true) => "ok".to_string(),
            Some(false) => {
                // the public `get_move_ambiguity_type` asked directly about the same illegal move must refuse it too
                match m {
                    BoardMove::MovePiece(pm) => match catch(|| b.get_move_ambiguity_type(&pm).is_ok()) {
                        None => "panic-amb".to_string(),
                        Some(true) => "ok-amb".to_string(),
                        Some(false) => "err".to_string(),
                    },
                    _ => "err".to_string(),
                }
            }
        },
    };
    // ... and asked directly about a LEGAL king move it answers `Neither` (MovePropertiesOnBoard::new never asks it that)
    if illegal == "err" {
        if let Some(ms) = catch(|| b.get_legal_moves()) {
            for m in ms.iter() {
                if let BoardMove::MovePiece(pm) = m {
                    if pm.get_piece_type() == PieceType::King {
                        match catch(|| b.get_move_ambiguity_type(pm)) {
                            Some(Ok(DisplayAmbiguityType::Neither)) => {}
                            None => illegal = "panic-kingamb".to_string(),
                            _ => illegal = "bad-kingamb".to_string(),
                        }
                        break;
                    }
                }
            }
        }
    }
    format!("sans={sans} dup={dup} illegal={illegal}")
}

pub fn obs_bb(v: u64) -> String {
    let list = g(|| {
        let it = BitBoard::new(v);
        let l: Vec<String> = it.map(|s| s.to_index().to_string()).collect();
        if l.is_empty() {
            "-".to_string()
        } else {
            l.join(",")
        }
    });
    let cnt = g(|| BitBoard::new(v).count_ones().to_string());
    let lo = g(|| sq_opt(BitBoard::new(v).last_bit_square()));
    let hi = g(|| sq_opt(BitBoard::new(v).first_bit_square()));
    let grid = g(|| hex(&format!("{}", BitBoard::new(v))));
    // the operator impls: & | ^ ! * and the assigning forms, against two fixed masks
    let alg = g(|| {
        let (x, c, d) = (BitBoard::new(v), BitBoard::new(0x00ff_00f0_0f0f_3c5a), BitBoard::new(0x8100_0042_2400_0081));
        let a = (x & c) ^ (x | d) ^ !x ^ (x * BitBoard::new(3));
        let mut y = x;
        y &= c;
        let mut z = x;
        z |= d;
        let mut w = !x;
        w ^= x * BitBoard::new(3);
        let b2 = y ^ z ^ w;
        format!("{}{}", hx(a.bits()), if a == b2 { "" } else { "!assign" })
    });
    let dbg = g(|| hex(&format!("{:?}", BitBoard::new(v))));
    format!("list={list} cnt={cnt} lo={lo} hi={hi} grid={grid} alg={alg} dbg={dbg}")
}

pub fn obs_render(b: &ChessBoard, flag: bool) -> String {
    colored::control::set_override(flag);
    let s = g(|| hex(&strip_ansi(&b.render_straight())));
    let f = g(|| hex(&strip_ansi(&b.render_flipped())));
    let d = g(|| ((format!("{b}") == b.render_straight()) as u8).to_string());
    format!("s={s} f={f} d={d}")
}

pub fn obs_gstat() -> String {
    use GameStatus::*;
    let all = [
        Ongoing,
        DrawOffered(Color::White),
        DrawOffered(Color::Black),
        CheckMated(Color::White),
        CheckMated(Color::Black),
        Resigned(Color::White),
        Resigned(Color::Black),
        FiftyMovesDrawDeclared,
        TheoreticalDrawDeclared,
        RepetitionDrawDeclared,
        DrawAccepted,
        Stalemate,
    ];
    let v = g(|| hex(&all.iter().map(|s| format!("{s}")).collect::<Vec<_>>().join("|")));
    format!("v={v}")
}
