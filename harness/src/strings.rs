//! String generators: exhaustive enumeration, FEN grammar / corruption / mutation, PGN texts.

use crate::util::*;

/// Calls `f` on every string made of at most `maxlen` alphabet symbols: by length, then in
/// alphabet order (first symbol most significant).
pub fn enumerate_strings(alphabet: &[&str], maxlen: usize, f: &mut dyn FnMut(&str)) {
    let n = alphabet.len() as u64;
    for len in 0..=maxlen {
        let total = n.pow(len as u32);
        let mut idx = vec![0usize; len];
        for code in 0..total {
            let mut c = code;
            for p in (0..len).rev() {
                idx[p] = (c % n) as usize;
                c /= n;
            }
            let s: String = idx.iter().map(|&i| alphabet[i]).collect();
            f(&s);
        }
    }
}

pub const MUTATION_KINDS: [&str; 12] = [
    "delete", "duplicate", "replace", "swap", "truncate", "insert", "splice2", "splice3", "duptoken",
    "droptoken", "swaptoken", "doublesep",
];

/// One random edit of `text`; returns (kind, result).  `pool` supplies replacement / insertion
/// characters.  Token edits split on ' ' (FEN, moves) or on ASCII whitespace when `ws` is set
/// (PGN; tokens are then re-joined with single spaces, line structure of that part is lost).
pub fn mutate(text: &str, pool: &[char], ws: bool, rng: &mut Rng) -> (&'static str, String) {
    let cs: Vec<char> = text.chars().collect();
    let kind = MUTATION_KINDS[rng.below(MUTATION_KINDS.len())];
    let n = cs.len();
    let res: String = match kind {
        "delete" if n > 0 => {
            let i = rng.below(n);
            cs.iter().enumerate().filter(|(j, _)| *j != i).map(|(_, c)| *c).collect()
        }
        "duplicate" if n > 0 => {
            let i = rng.below(n);
            let mut v = cs.clone();
            v.insert(i, cs[i]);
            v.into_iter().collect()
        }
        "replace" if n > 0 => {
            let i = rng.below(n);
            let mut v = cs.clone();
            v[i] = *rng.pick(pool);
            v.into_iter().collect()
        }
        "swap" if n > 1 => {
            let i = rng.below(n - 1);
            let mut v = cs.clone();
            v.swap(i, i + 1);
            v.into_iter().collect()
        }
        "truncate" if n > 0 => cs[..rng.below(n)].iter().collect(),
        "insert" => {
            let i = rng.below(n + 1);
            let mut v = cs.clone();
            v.insert(i, *rng.pick(pool));
            v.into_iter().collect()
        }
        "splice2" | "splice3" => {
            let i = rng.below(n + 1);
            let mut v = cs.clone();
            v.insert(i, if kind == "splice2" { 'é' } else { '€' });
            v.into_iter().collect()
        }
        "duptoken" | "droptoken" | "swaptoken" | "doublesep" => {
            let mut toks: Vec<&str> =
                if ws { text.split_ascii_whitespace().collect() } else { text.split(' ').collect() };
            if toks.is_empty() {
                text.to_string()
            } else {
                let i = rng.below(toks.len());
                match kind {
                    "duptoken" => toks.insert(i, toks[i]),
                    "droptoken" => {
                        toks.remove(i);
                    }
                    "swaptoken" if toks.len() > 1 => {
                        let j = rng.below(toks.len());
                        toks.swap(i, j);
                    }
                    "doublesep" => toks.insert(i, ""),
                    _ => {}
                }
                toks.join(" ")
            }
        }
        _ => text.to_string(),
    };
    (kind, res)
}

// ---------------------------------------------------------------------------------------------
// FEN
// ---------------------------------------------------------------------------------------------

/// Canonical FEN board field from 64 cells (index = 8*rank + file, '.' = empty); cells may hold
/// any character.
pub fn fen_board(cells: &[char]) -> String {
    let mut s = String::new();
    for r in (0..8).rev() {
        let mut empty = 0;
        for f in 0..8 {
            let c = cells[r * 8 + f];
            if c == '.' {
                empty += 1;
            } else {
                if empty > 0 {
                    s.push_str(&empty.to_string());
                    empty = 0;
                }
                s.push(c);
            }
        }
        if empty > 0 {
            s.push_str(&empty.to_string());
        }
        if r > 0 {
            s.push('/');
        }
    }
    s
}

pub fn sq_name(i: usize) -> String { format!("{}{}", (b'a' + (i % 8) as u8) as char, (b'1' + (i / 8) as u8) as char) }

/// Single-defect corruptions of a valid position given its placement (64 chars) and FEN text.
/// Kinds: nokingw nokingb dupkingw dupkingb oppcheck right<K|Q|k|q>norook right<..>noking ep<sq>.
pub fn corruptions(placement: &str, fen: &str, in_check: bool, rng: &mut Rng) -> Vec<(String, String)> {
    let cells: Vec<char> = placement.chars().collect();
    let tok: Vec<&str> = fen.split(' ').collect();
    let mut out = Vec::new();
    if cells.len() != 64 || tok.len() != 6 {
        return out;
    }
    let join = |c: &[char], side: &str, castle: &str, ep: &str| {
        format!("{} {} {} {} {} {}", fen_board(c), side, castle, ep, tok[4], tok[5])
    };
    let empties: Vec<usize> = (0..64).filter(|&i| cells[i] == '.').collect();
    for (k, name) in [('K', "w"), ('k', "b")] {
        let mut c = cells.clone();
        for x in c.iter_mut() {
            if *x == k {
                *x = '.';
            }
        }
        out.push((format!("noking{name}"), join(&c, tok[1], tok[2], tok[3])));
        if !empties.is_empty() {
            let mut c = cells.clone();
            c[*rng.pick(&empties)] = k;
            out.push((format!("dupking{name}"), join(&c, tok[1], tok[2], tok[3])));
        }
    }
    // opponent left in check
    let other = if tok[1] == "w" { "b" } else { "w" };
    if in_check {
        out.push(("oppcheck".to_string(), join(&cells, other, tok[2], "-")));
    } else {
        let (opp_king, own_knight) = if tok[1] == "w" { ('k', 'N') } else { ('K', 'n') };
        if let Some(k) = cells.iter().position(|&c| c == opp_king) {
            let (r, f) = ((k / 8) as i32, (k % 8) as i32);
            for (dr, df) in [(1, 2), (2, 1), (-1, 2), (-2, 1), (1, -2), (2, -1), (-1, -2), (-2, -1)] {
                let (a, b) = (r + dr, f + df);
                if (0..8).contains(&a) && (0..8).contains(&b) && cells[(a * 8 + b) as usize] == '.' {
                    let mut c = cells.clone();
                    c[(a * 8 + b) as usize] = own_knight;
                    out.push(("oppcheck".to_string(), join(&c, tok[1], tok[2], tok[3])));
                    break;
                }
            }
        }
    }
    // opponent left in check while the (consistent) en-passant square is KEPT: a knight of the side to move next to the enemy king
    if tok[3] != "-" {
        let (opp_king, own_knight) = if tok[1] == "w" { ('k', 'N') } else { ('K', 'n') };
        if let Some(k) = cells.iter().position(|&c| c == opp_king) {
            let (r, f) = ((k / 8) as i32, (k % 8) as i32);
            for (dr, df) in [(1, 2), (2, 1), (-1, 2), (-2, 1), (1, -2), (2, -1), (-1, -2), (-2, -1)] {
                let (a, b) = (r + dr, f + df);
                if (0..8).contains(&a) && (0..8).contains(&b) && cells[(a * 8 + b) as usize] == '.' && sq_name((a * 8 + b) as usize) != tok[3] {
                    let mut c = cells.clone();
                    c[(a * 8 + b) as usize] = own_knight;
                    out.push(("oppcheck_ep".to_string(), join(&c, tok[1], tok[2], tok[3])));
                    break;
                }
            }
        }
    }
    // each right without rook / without king
    for (right, king, rook, home, corner) in
        [('K', 'K', 'R', 4usize, 7usize), ('Q', 'K', 'R', 4, 0), ('k', 'k', 'r', 60, 63), ('q', 'k', 'r', 60, 56)]
    {
        let mut castle: String = "KQkq".chars().filter(|&c| c == right || tok[2].contains(c)).collect();
        if castle.is_empty() {
            castle = "-".to_string();
        }
        let mut c = cells.clone();
        if c[corner] == rook {
            c[corner] = '.';
        }
        out.push((format!("right{right}norook"), join(&c, tok[1], &castle, tok[3])));
        // (sixth wave, C09-f) the corner holds a rook of the WRONG colour / another own man instead of the own rook
        let enemy_rook = if rook == 'R' { 'r' } else { 'R' };
        let own_bishop = if rook == 'R' { 'B' } else { 'b' };
        for (tag, man) in [("enemyrook", enemy_rook), ("ownbishop", own_bishop)] {
            let mut c = cells.clone();
            c[corner] = man;
            out.push((format!("right{right}{tag}"), join(&c, tok[1], &castle, tok[3])));
        }
        let mut c = cells.clone();
        if c[home] == king {
            c[home] = '.';
            let spots: Vec<usize> = empties.iter().copied().filter(|&e| e != home).collect();
            if !spots.is_empty() {
                c[*rng.pick(&spots)] = king;
            }
        }
        out.push((format!("right{right}noking"), join(&c, tok[1], &castle, tok[3])));
    }
    for e in 0..64 {
        out.push(("ep".to_string(), join(&cells, tok[1], tok[2], &sq_name(e))));
    }
    out
}

pub const CLOCK_TEXTS: [&str; 30] = [
    "0", "1", "49", "50", "98", "99", "100", "101", "150", "255", "256", "65535", "65536", "2147483647",
    "2147483648", "4294967295", "4294967296", "9223372036854775807", "9223372036854775808",
    "18446744073709551614", "18446744073709551615", "18446744073709551616", "18446744073709551617",
    "99999999999999999999999", "00", "007", "+1", "-0", "-1", "1.0",
];

const SIDES: [&str; 9] = ["w", "b", "w", "b", "W", "B", "x", "", "wb"];
const CASTLES: [&str; 18] = [
    "-", "-", "KQkq", "KQ", "kq", "K", "Q", "k", "q", "Kk", "Qq", "qkQK", "KK", "AHah", "KQkq-", "", "kqKQ", "x",
];
const EPS: [&str; 20] = [
    "-", "-", "-", "-", "-", "-", "e3", "e6", "a3", "h6", "d6", "c3", "e4", "e9", "i3", "E3", "e", "33", "-e3", "",
];
const PIECES: [char; 12] = ['P', 'N', 'B', 'R', 'Q', 'K', 'p', 'n', 'b', 'r', 'q', 'k'];

/// A grammar-generated FEN-like text (often valid syntax, semantic validity left to chance).
pub fn grammar_fen(rng: &mut Rng) -> String {
    let board = if rng.pct(70) {
        // cell based: both kings, a few random men, optionally non-canonical digit runs
        let mut cells = vec!['.'; 64];
        cells[rng.below(64)] = 'K';
        let mut k = rng.below(64);
        while cells[k] != '.' {
            k = rng.below(64);
        }
        cells[k] = 'k';
        for _ in 0..rng.below(12) {
            let s = rng.below(64);
            if cells[s] == '.' {
                cells[s] = *rng.pick(&PIECES[..]);
                if cells[s] == 'K' || cells[s] == 'k' {
                    if !rng.pct(10) {
                        cells[s] = 'n';
                    }
                }
            }
        }
        if rng.pct(25) {
            // split empty runs into 1s here and there: "11" instead of "2"
            let canon = fen_board(&cells);
            canon
                .chars()
                .map(|c| match c {
                    '2'..='8' if rng.pct(40) => {
                        let d = c as u8 - b'0';
                        let a = 1 + rng.below((d - 1) as usize) as u8;
                        format!("{}{}", a, d - a)
                    }
                    c => c.to_string(),
                })
                .collect()
        } else {
            fen_board(&cells)
        }
    } else {
        let ranks = match rng.below(30) {
            0 => 7,
            1 => 9,
            _ => 8,
        };
        let mut parts = Vec::new();
        for _ in 0..ranks {
            let mut s = String::new();
            let mut width = 0;
            let target = match rng.below(20) {
                0 => 7,
                1 => 9,
                _ => 8,
            };
            while width < target {
                if rng.pct(45) {
                    let d = 1 + rng.below((target - width).min(8));
                    s.push_str(&d.to_string());
                    width += d;
                } else if rng.pct(3) {
                    s.push(*rng.pick(&['x', '9', '0', 'é', '-'][..]));
                    width += 1;
                } else {
                    s.push(*rng.pick(&PIECES[..]));
                    width += 1;
                }
            }
            parts.push(s);
        }
        parts.join("/")
    };
    let clock = |rng: &mut Rng| -> String {
        if rng.pct(80) {
            rng.below(120).to_string()
        } else {
            rng.pick(&CLOCK_TEXTS[..]).to_string()
        }
    };
    let mut fields = vec![
        board,
        rng.pick(&SIDES[..]).to_string(),
        rng.pick(&CASTLES[..]).to_string(),
        rng.pick(&EPS[..]).to_string(),
        clock(rng),
        clock(rng),
    ];
    match rng.below(40) {
        0 => {
            fields.pop();
        }
        1 => fields.push("1".to_string()),
        2 => {
            let i = rng.below(6);
            fields.remove(i);
        }
        _ => {}
    }
    let sep = match rng.below(40) {
        0 => "  ",
        1 => "\t",
        _ => " ",
    };
    let mut s = fields.join(sep);
    match rng.below(40) {
        0 => s.push(' '),
        1 => s.insert(0, ' '),
        2 => s.push('\n'),
        _ => {}
    }
    s
}

pub const FEN_POOL: [char; 30] = [
    'P', 'N', 'B', 'R', 'Q', 'K', 'p', 'n', 'b', 'r', 'q', 'k', '/', '1', '2', '7', '8', '9', '0', ' ', '-', 'w', 'a',
    'h', '3', '6', 'é', '€', 'x', '\t',
];

pub const MOVE_POOL: [char; 24] = [
    'a', 'h', 'e', 'i', '1', '8', '9', '0', 'N', 'K', 'Q', 'P', 'n', 'x', '=', 'O', '-', '+', '#', ' ', 'é', '€', 'b', 'R',
];

pub const PGN_POOL: [char; 24] = [
    'a', 'e', 'h', '1', '4', '8', 'N', 'K', 'Q', 'O', '-', 'x', '=', '+', '#', '.', ' ', '\n', '[', ']', '"', 'é', '€', '/',
];

/// Hand-written PGN grammar cases.
pub const PGN_CASES: [&str; 34] = [
    "",
    "\n\n",
    "\n",
    "1. e4 e5",
    "\n\n1. e4 e5",
    "\n\n1.e4 e5",
    "[Event \"x\"]\n\n",
    "[Event \"x\"]\n\n1. e4 e5 2. Nf3 Nc6 *",
    "[Event \"x\"]\n1. e4 e5 2. Nf3 Nc6",
    "[Event \"x\"]\r\n\r\n1. e4 e5 2. Nf3 Nc6",
    "[Result \"1-0\"]\n\n1. e4 e5 1-0",
    "\n\n1. e4 e5 1-0",
    "\n\n1. e4 e5 0-1",
    "\n\n1. e4 e5 1/2-1/2",
    "\n\n1-0",
    "\n\n1/2-1/2 1-0 0-1",
    "\n\n1. e5",
    "\n\n1. e4 e4",
    "\n\n1. e4 {good} e5 ; rest",
    "\n\n1. f3 e5 2. g4 Qh4#",
    "\n\n1. f3 e5 2. g4 Qh4# 3. a3",
    "\n\n1. f3 e5 2. g4 Qh4# 0-1",
    "\n\n1. f3 e5 2. g4 Qh4# 1-0",
    "\n\n1. f3 e5 2. g4 Qh4+",
    "\n\n1. e4 e5 2. Nf3 Nc6 3. Bc4 Bc5 4. O-O Nf6 5. d3 O-O",
    "\n\n1. d4 d5 2. Nc3 Nc6 3. Bf4 Bf5 4. Qd2 Qd7 5. O-O-O O-O-O",
    "\n\nO-O",
    "\n\n1. e4 d5 2. exd5 c6 3. dxc6 Nf6 4. cxb7 Bd7 5. bxa8=Q",
    "\n\n1. e4 d5 2. exd5 c6 3. dxc6 Nf6 4. cxb7 Bd7 5. bxa8=n",
    "\n\n1. Nf3 Nf6 2. Ng1 Ng8 3. Nf3 Nf6 4. Ng1 Ng8",
    "\n\n1. Nf3 Nf6 2. Ng1 Ng8 3. Nf3 Nf6 4. Ng1 Ng8 5. e4",
    "\n\n1. e4 e5\n\n2. Nf3",
    "\n\n\n\n1. e4",
    "[White \"é€\"]\n\n1. é4 e5",
];
