//! Group drivers (part 1) and the `replay` executor.

use crate::gen::*;
use crate::obs::*;
use crate::obs2::*;
use crate::util::*;
use crate::*;
use libchess::*;

pub const GROUPS: [&str; 14] = [
    "tables", "prims", "zobrist", "legal", "moves", "univ", "fen", "parse", "san", "game", "pgn", "render",
    "flip", "replay",
];

pub fn run(group: &str, tier: usize, seed: u64, out: &mut Out) -> Result<(), String> {
    match group {
        "tables" => tables(out),
        "prims" => prims(tier, seed, out),
        "zobrist" => zobrist(tier, seed, out),
        "legal" => legal(tier, seed, out),
        "moves" => moves(tier, seed, out),
        "univ" => univ(tier, seed, out),
        "fen" => crate::groups2::fen(tier, seed, out),
        "parse" => crate::groups2::parse(tier, seed, out),
        "san" => san(tier, seed, out),
        "game" => crate::groups3::game(tier, seed, out),
        "pgn" => crate::groups3::pgn(tier, seed, out),
        "render" => render(tier, seed, out),
        "flip" => flip(tier, seed, out),
        "replay" => return replay(out),
        _ => return Err(format!("unknown group {group}")),
    }
    Ok(())
}

/// Emits a `<op> <raw>` line; positions whose dump panics are skipped (counted).
pub fn with_raw(out: &mut Out, b: &ChessBoard, f: impl FnOnce(&mut Out, &str)) {
    match raw(b) {
        Some(r) => f(out, &r),
        None => out.stats.inc("gen.raw_dump_panics"),
    }
}

fn tables(out: &mut Out) {
    for name in TBL_NAMES {
        out.emit(&format!("tbl {name}"), &obs_tbl(name));
    }
    out.emit("prim offsets", &obs_prim("offsets"));
}

fn emit_bb(out: &mut Out, v: u64, class: &str) {
    out.stats.inc(&format!("bb.{class}"));
    out.emit(&format!("bb {}", hx(v)), &obs_bb(v));
}

fn prims(tier: usize, seed: u64, out: &mut Out) {
    for k in PRIM_KINDS {
        out.emit(&format!("prim {k}"), &obs_prim(k));
    }
    emit_bb(out, 0, "zero");
    for i in 0..64 {
        emit_bb(out, 1u64 << i, "singleton");
    }
    let mut n = 0usize;
    for i in 0..64 {
        for j in (i + 1)..64 {
            if n % PRIMS_PAIR_STRIDE[tier] == 0 {
                emit_bb(out, 1u64 << i | 1u64 << j, "pair");
            }
            n += 1;
        }
    }
    for r in 0..8 {
        emit_bb(out, 0xffu64 << (8 * r), "rank");
    }
    for f in 0..8 {
        emit_bb(out, 0x0101_0101_0101_0101u64 << f, "file");
    }
    emit_bb(out, u64::MAX, "full");
    let mut rng = Rng::new(seed, 201);
    for i in 0..PRIMS_RANDOM_MASKS[tier] {
        // a third uniform, a third sparse (AND of three draws), a third dense (OR of three draws)
        let (a, b, c) = (rng.next_u64(), rng.next_u64(), rng.next_u64());
        match i % 3 {
            0 => emit_bb(out, a, "random_uniform"),
            1 => emit_bb(out, a & b & c, "random_sparse"),
            _ => emit_bb(out, a | b | c, "random_dense"),
        }
    }
    out.emit("gstat", &obs_gstat());
}

fn emit_mv(out: &mut Out, b: &ChessBoard, m: &BoardMove, what: &str) {
    let text = move_text(m);
    with_raw(out, b, |out, r| {
        let o = obs_mv(b, m);
        let class = o.split(' ').next().unwrap_or("").to_string();
        out.stats.inc(&format!("mv.{what}.{class}"));
        out.emit(&format!("mv {r} {text}"), &o);
    });
    // C06 is about every position reachable through the library's own moves: the successor of every move the
    // implementation accepts gets its own representation-invariant query (whatever the specification thinks of the move)
    if what == "legal" {
        if let Some(nb) = catch(|| b.make_move(m).ok()).flatten() {
            with_raw(out, &nb, |out, r| out.emit(&format!("q {r}"), &obs_q(&nb)));
        }
    }
}

/// Transposition probe: moves a, b of the side to move (different pieces) and a reply x such
/// that both a,x,b and b,x,a are playable; emits `mv` for each of the six steps.  Returns false
/// when no such triple was found in a few random attempts.
fn transposition_probe(out: &mut Out, b: &ChessBoard, rng: &mut Rng) -> bool {
    let found = catch(|| {
        let legal = b.get_legal_moves();
        if legal.len() < 2 {
            return None;
        }
        for _ in 0..12 {
            let a = *rng.pick(&legal);
            let c = *rng.pick(&legal);
            let (pa, pc) = match (a, c) {
                (BoardMove::MovePiece(x), BoardMove::MovePiece(y)) => (x, y),
                _ => continue,
            };
            if pa.get_source_square() == pc.get_source_square()
                || pa.get_destination_square() == pc.get_destination_square()
            {
                continue;
            }
            let ba = b.make_move(&a).ok()?;
            let bc = b.make_move(&c).ok()?;
            let replies = ba.get_legal_moves();
            if replies.is_empty() {
                continue;
            }
            for _ in 0..6 {
                let x = *rng.pick(&replies);
                let (bax, bcx) = match (ba.make_move(&x), bc.make_move(&x)) {
                    (Ok(p), Ok(q)) => (p, q),
                    _ => continue,
                };
                if bax.is_legal_move(&c) && bcx.is_legal_move(&a) {
                    return Some((a, c, x, ba, bc, bax, bcx));
                }
            }
        }
        None
    })
    .flatten();
    match found {
        None => false,
        Some((a, c, x, ba, bc, bax, bcx)) => {
            emit_mv(out, b, &a, "probe");
            emit_mv(out, &ba, &x, "probe");
            emit_mv(out, &bax, &c, "probe");
            emit_mv(out, b, &c, "probe");
            emit_mv(out, &bc, &x, "probe");
            emit_mv(out, &bcx, &a, "probe");
            let same = catch(|| match (bax.make_move(&c), bcx.make_move(&a)) {
                (Ok(p), Ok(q)) => p.get_hash() == q.get_hash(),
                _ => false,
            })
            .unwrap_or(false);
            out.stats.inc(if same { "zobrist.probe_hash_equal" } else { "zobrist.probe_hash_differs" });
            true
        }
    }
}

fn zobrist(tier: usize, seed: u64, out: &mut Out) {
    out.emit("zob", &format!("keys={}", obs_zob()));
    let seeds = load_seeds(&mut out.stats);
    let mut rng = Rng::new(seed, 301);
    let probes_wanted = ZOB_PROBES[tier];
    let every = (ZOB_PLIES[tier] / probes_wanted.max(1)).max(1);
    let mut count = 0usize;
    let mut probes = 0usize;
    g1(&seeds, ZOB_PLIES[tier], &mut rng, out, &mut |out, v, rng| {
        if let Some(m) = v.played {
            emit_mv(out, v.board, &m, "played");
        }
        count += 1;
        if count % every == 0 && probes < probes_wanted {
            out.stats.inc("zobrist.probe_attempts");
            if transposition_probe(out, v.board, rng) {
                probes += 1;
                out.stats.inc("zobrist.probes");
            }
        }
    });
    // second pass (added after seeded change C07-d): positions of ALL sources (synthetic ones hold rights and an en-passant
    // square at once, which playouts rarely do); every special move - castling, en passant, promotion, corner capture,
    // rook/king move with rights - and, when an en-passant square is set, every legal move (each must drop the file key)
    all_sources(ZOB_SPECIAL[tier], seed ^ 0x5a5a, out, &mut |out, v, rng| {
        let b = v.board;
        let legal = catch(|| b.get_legal_moves()).unwrap_or_default();
        let ep_set = catch(|| b.get_en_passant().is_some()).unwrap_or(false);
        let mut n = 0;
        let mut order: Vec<BoardMove> = legal.clone();
        rng.shuffle(&mut order);
        for m in order.iter() {
            let c = crate::gen::classify(b, m);
            let special = c.ep || c.castle || c.promo || c.corner_capture || c.rights_move;
            if special || (ep_set && n < 12) {
                n += 1;
                emit_mv(out, b, m, if special { "special" } else { "ep_set" });
            }
            if n >= 24 { break; }
        }
    });
}

/// Independent of the library: is square `t` attacked by a man of colour `by` on the placement `cells`?  Plain coordinate
/// geometry (used ONLY to select successors worth a `q` line; verdicts come from the model / specification).
pub fn indep_attacked(cells: &[Option<Piece>; 64], t: usize, by: Color) -> bool {
    let (tr, tf) = ((t / 8) as i32, (t % 8) as i32);
    let at = |r: i32, f: i32| -> Option<usize> { if (0..8).contains(&r) && (0..8).contains(&f) { Some((r * 8 + f) as usize) } else { None } };
    let is = |s: Option<usize>, ty: PieceType| -> bool { s.map_or(false, |s| cells[s] == Some(Piece(ty, by))) };
    for (dr, df) in [(1,2),(2,1),(-1,2),(-2,1),(1,-2),(2,-1),(-1,-2),(-2,-1)] { if is(at(tr + dr, tf + df), PieceType::Knight) { return true; } }
    for dr in -1..=1 { for df in -1..=1 { if (dr, df) != (0, 0) && is(at(tr + dr, tf + df), PieceType::King) { return true; } } }
    // a pawn of colour `by` attacks diagonally forward: it stands one rank behind `t` from its own point of view
    let pr = if by == Color::White { tr - 1 } else { tr + 1 };
    if is(at(pr, tf - 1), PieceType::Pawn) || is(at(pr, tf + 1), PieceType::Pawn) { return true; }
    for (dr, df) in [(1,0),(-1,0),(0,1),(0,-1),(1,1),(1,-1),(-1,1),(-1,-1)] {
        let orth = dr == 0 || df == 0;
        let mut i = 1;
        while let Some(s) = at(tr + dr * i, tf + df * i) {
            if let Some(p) = cells[s] {
                if p.1 == by && (p.0 == PieceType::Queen || (orth && p.0 == PieceType::Rook) || (!orth && p.0 == PieceType::Bishop)) { return true; }
                break;
            }
            i += 1;
        }
    }
    false
}

/// Successors (of moves the implementation lists as legal) in which the side that just moved is in check according to the
/// independent detector: each gets a `q` line, so that C06's own observation sees it (at most 3 per position).
fn screen_successors(out: &mut Out, b: &ChessBoard, legal: &[BoardMove]) {
    let mover = match catch(|| b.get_side_to_move()) { Some(c) => c, None => return };
    let mut n = 0;
    for m in legal.iter() {
        if n >= 3 { break; }
        let nb = match catch(|| b.make_move(m).ok()).flatten() { Some(x) => x, None => continue };
        let cells: Option<[Option<Piece>; 64]> = catch(|| { let mut c = [None; 64]; for i in 0..64 { c[i] = nb.get_piece_on(sq(i)); } c });
        let cells = match cells { Some(c) => c, None => continue };
        let k = (0..64).find(|&i| cells[i] == Some(Piece(PieceType::King, mover)));
        let bad = match k { Some(k) => indep_attacked(&cells, k, if mover == Color::White { Color::Black } else { Color::White }), None => true };
        out.stats.inc("legal.successors_screened");
        if bad {
            n += 1;
            out.stats.inc("legal.successors_mover_in_check");
            with_raw(out, &nb, |out, r| out.emit(&format!("q {r}"), &obs_q(&nb)));
        }
    }
}

fn legal(tier: usize, seed: u64, out: &mut Out) {
    all_sources(POS_LEGAL[tier], seed, out, &mut |out, v, _| {
        let b = v.board;
        with_raw(out, b, |out, r| {
            out.emit(&format!("legal {r}"), &obs_legal(b));
            out.emit(&format!("status {r}"), &obs_status(b));
            out.emit(&format!("masks {r}"), &obs_masks(b));
        });
        // successors of the SPECIAL legal moves (castling, en passant, promotions, corner captures): representation
        // invariant (C06), status and masks (C04/C05) of the board object make_move returns
        let legal = catch(|| b.get_legal_moves()).unwrap_or_default();
        screen_successors(out, b, &legal);
        let mut n = 0;
        for m in legal.iter() {
            let c = crate::gen::classify(b, m);
            if !(c.castle || c.ep || c.promo || c.corner_capture) || n >= 6 {
                continue;
            }
            if let Some(nb) = catch(|| b.make_move(m).ok()).flatten() {
                n += 1;
                with_raw(out, &nb, |out, r| {
                    out.emit(&format!("q {r}"), &obs_q(&nb));
                    out.emit(&format!("status {r}"), &obs_status(&nb));
                    out.emit(&format!("masks {r}"), &obs_masks(&nb));
                });
            }
        }
    });
}

/// A random universe value that `is_legal_move` rejects.  Half of the draws are "near misses":
/// a man of the side to move with its real type and a random destination / promotion.
pub fn random_illegal(b: &ChessBoard, rng: &mut Rng) -> Option<BoardMove> {
    for _ in 0..40 {
        let m = if rng.pct(4) {
            if rng.pct(50) {
                BoardMove::CastleKingSide
            } else {
                BoardMove::CastleQueenSide
            }
        } else if rng.pct(50) {
            let own: Vec<(Square, Piece)> = catch(|| {
                piece_list(b).into_iter().filter(|(_, p)| p.1 == b.get_side_to_move()).collect()
            })
            .unwrap_or_default();
            if own.is_empty() {
                continue;
            }
            let (s, p) = *rng.pick(&own);
            let pr = if rng.pct(20) { PROMOS[rng.below(6)] } else { None };
            BoardMove::MovePiece(PieceMove::new(p.0, s, sq(rng.below(64)), pr).unwrap())
        } else {
            BoardMove::MovePiece(
                PieceMove::new(pt(rng.below(6)), sq(rng.below(64)), sq(rng.below(64)), PROMOS[rng.below(6)])
                    .unwrap(),
            )
        };
        if catch(|| b.is_legal_move(&m)) == Some(false) {
            return Some(m);
        }
    }
    None
}

fn moves(tier: usize, seed: u64, out: &mut Out) {
    all_sources(POS_MOVES[tier], seed, out, &mut |out, v, rng| {
        let b = v.board;
        with_raw(out, b, |out, r| out.emit(&format!("q {r}"), &obs_q(b)));
        let legal = catch(|| b.get_legal_moves()).unwrap_or_default();
        if tier == 1 {
            for m in &legal {
                emit_mv(out, b, m, "legal");
            }
        } else {
            let mut chosen: Vec<BoardMove> = Vec::new();
            if let Some(m) = v.played {
                chosen.push(m);
            }
            let mut rest: Vec<BoardMove> = legal.iter().copied().filter(|m| Some(*m) != v.played).collect();
            rng.shuffle(&mut rest);
            // special moves first (castling, en passant, promotions, corner captures, rook/king moves with rights, pieces landing
            // on the en-passant square; checks are too frequent to count here), at most 8 of them, then the random extras
            let (mut special, plain): (Vec<BoardMove>, Vec<BoardMove>) = rest.into_iter().partition(|m| {
                let c = crate::gen::classify(b, m);
                c.ep || c.castle || c.promo || c.corner_capture || c.rights_move || c.onto_ep
            });
            special.truncate(8);
            chosen.extend(special);
            chosen.extend(plain.into_iter().take(MOVES_QUICK_EXTRA));
            for m in &chosen {
                emit_mv(out, b, m, "legal");
            }
        }
        for _ in 0..MOVES_ILLEGAL_PER_POS {
            if let Some(m) = random_illegal(b, rng) {
                emit_mv(out, b, &m, "illegal");
            }
        }
    });
}

fn univ(tier: usize, seed: u64, out: &mut Out) {
    let uni = universe();
    all_sources(POS_UNIV[tier], seed, out, &mut |out, v, _| {
        let b = v.board;
        with_raw(out, b, |out, r| out.emit(&format!("univ {r}"), &obs_univ(b, &uni)));
    });
}

fn san(tier: usize, seed: u64, out: &mut Out) {
    all_sources(POS_SAN[tier], seed, out, &mut |out, v, _| {
        let b = v.board;
        with_raw(out, b, |out, r| {
            let o = obs_sanall(b);
            if o.contains("dup=1") {
                out.stats.inc("san.positions_with_duplicate_san");
            }
            // ambiguity kinds seen (flags are the 4 chars after the last ':' of each item)
            if let Some(s) = o.split(' ').next() {
                for item in s.trim_start_matches("sans=").split(',') {
                    if let Some(fl) = item.rsplit(':').next() {
                        if fl.len() == 4 {
                            out.stats.inc(&format!("san.ambiguity_{}", &fl[3..]));
                            if fl.as_bytes()[2] == b'm' {
                                out.stats.inc("san.mates");
                            }
                        }
                    }
                }
            }
            out.emit(&format!("sanall {r}"), &o);
        });
    });
}

fn render(tier: usize, seed: u64, out: &mut Out) {
    all_sources(POS_RENDER[tier], seed, out, &mut |out, v, _| {
        let b = v.board;
        with_raw(out, b, |out, r| {
            out.emit(&format!("render {r} 0"), &obs_render(b, false));
            out.emit(&format!("render {r} 1"), &obs_render(b, true));
        });
    });
    out.emit("gstat", &obs_gstat());
}

fn flip(tier: usize, seed: u64, out: &mut Out) {
    all_sources(POS_FLIP[tier], seed, out, &mut |out, v, _| {
        let b = v.board;
        with_raw(out, b, |out, r| {
            let o = obs_flip(b);
            out.stats.inc(if o.starts_with("v=1") { "flip.v1" } else { "flip.v0" });
            if o.contains(" h=-") {
                out.stats.inc("flip.h_not_applicable");
            } else if o.contains(" h=1") {
                out.stats.inc("flip.h1");
            } else {
                out.stats.inc("flip.h0");
            }
            out.emit(&format!("flip {r}"), &o);
        });
    });
}

// ---------------------------------------------------------------------------------------------
// replay
// ---------------------------------------------------------------------------------------------

/// Executes one op line.  Ops.txt receives the line unchanged.  Observations for lines that
/// cannot be executed: `r=badop` (unknown op / malformed arguments), `r=unbuildable` (the
/// `<raw>` could not be rebuilt through `ChessBoard::setup`).
pub fn exec_line(line: &str, sess: &mut Session, uni: &mut Option<Vec<BoardMove>>) -> String {
    let tok: Vec<&str> = line.split(' ').collect();
    let bad = || "r=badop".to_string();
    let board = |i: usize| -> Result<ChessBoard, String> {
        let t = tok.get(i).ok_or_else(bad)?;
        if parse_raw(t).is_none() {
            return Err(bad());
        }
        build_from_raw(t).ok_or_else(|| "r=unbuildable".to_string())
    };
    let text = |i: usize| -> Result<String, String> {
        let t = tok.get(i).ok_or_else(bad)?;
        String::from_utf8(unhex(t).ok_or_else(bad)?).map_err(|_| bad())
    };
    let r: Result<String, String> = (|| {
        Ok(match tok[0] {
            "zob" => format!("keys={}", obs_zob()),
            "legal" => obs_legal(&board(1)?),
            "mv" => {
                let b = board(1)?;
                let mt = tok.get(2).ok_or_else(bad)?;
                let m = catch(|| std::str::FromStr::from_str(mt).ok()).flatten().ok_or_else(bad)?;
                obs_mv(&b, &m)
            }
            "univ" => {
                let b = board(1)?;
                obs_univ(&b, uni.get_or_insert_with(universe))
            }
            "status" => obs_status(&board(1)?),
            "masks" => obs_masks(&board(1)?),
            "q" => obs_q(&board(1)?),
            "fen" => obs_fen(&board(1)?),
            "pfen" => obs_pfen(&text(1)?).0,
            "pmove" => obs_pmove(&text(1)?).0,
            "psq" => obs_psq(&text(1)?).0,
            "pfile" => obs_pfile(&text(1)?).0,
            "prank" => obs_prank(&text(1)?).0,
            "ppiece" => obs_ppiece(&text(1)?).0,
            "sanall" => obs_sanall(&board(1)?),
            "g.new" => sess.op_new(&board(1)?),
            "g.act" => {
                let a = parse_action(tok.get(1).ok_or_else(bad)?).ok_or_else(bad)?;
                sess.op_act(&a).0
            }
            "g.hist" => sess.op_hist(),
            "g.pgn" => sess.op_pgn(),
            "g.tag" => sess.op_tag(&text(1)?, &text(2)?),
            "g.probe" => sess.op_probe(&board(1)?),
            "g.frompgn" => obs_frompgn(&text(1)?).0,
            "rx" => obs_rx(&pgn_patterns(), &text(1)?),
            "tbl" => obs_tbl(tok.get(1).ok_or_else(bad)?),
            "prim" => obs_prim(tok.get(1).ok_or_else(bad)?),
            "bb" => obs_bb(u64::from_str_radix(tok.get(1).ok_or_else(bad)?, 16).map_err(|_| bad())?),
            "render" => {
                let b = board(1)?;
                let flag = match tok.get(2) {
                    Some(&"0") => false,
                    Some(&"1") => true,
                    _ => return Err(bad()),
                };
                obs_render(&b, flag)
            }
            "gstat" => obs_gstat(),
            "flip" => obs_flip(&board(1)?),
            _ => return Err(bad()),
        })
    })();
    match r {
        Ok(s) | Err(s) => s,
    }
}

fn replay(out: &mut Out) -> Result<(), String> {
    let path = std::env::var("VERIF_REPLAY_OPS").map_err(|_| "VERIF_REPLAY_OPS is not set".to_string())?;
    let text = std::fs::read_to_string(&path).map_err(|e| format!("cannot read {path}: {e}"))?;
    let mut sess = Session::default();
    let mut uni = None;
    for line in text.lines() {
        let line = line.trim_end_matches('\r');
        let o = exec_line(line, &mut sess, &mut uni);
        if o == "r=badop" {
            out.stats.inc("replay.badop");
        } else if o == "r=unbuildable" {
            out.stats.inc("replay.unbuildable");
        }
        out.emit(line, &o);
    }
    Ok(())
}
