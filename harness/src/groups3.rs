//! Group drivers (part 3): `game` and `pgn` (game sessions).

use crate::gen::*;
use crate::groups::random_illegal;
use crate::obs::*;
use crate::obs2::*;
use crate::util::*;
use crate::*;
use libchess::*;
use std::str::FromStr;

/// Emits session ops and keeps the real `Game`.
struct Sx<'a> {
    out: &'a mut Out,
    sess: Session,
    acts: usize,
}

impl<'a> Sx<'a> {
    fn new(out: &'a mut Out) -> Self { Sx { out, sess: Session::default(), acts: 0 } }

    /// `g.new`; false when the board could not be dumped or the constructor panicked.
    fn start(&mut self, b: &ChessBoard) -> bool {
        let r = match raw(b) {
            Some(r) => r,
            None => {
                self.out.stats.inc("gen.raw_dump_panics");
                return false;
            }
        };
        let o = self.sess.op_new(b);
        self.out.stats.inc("sessions.started");
        self.out.stats.inc(match catch(|| b.get_side_to_move()) {
            Some(Color::Black) => "sessions.black_moves_first",
            _ => "sessions.white_moves_first",
        });
        self.out.emit(&format!("g.new {r}"), &o);
        self.acts = 0;
        self.sess.game.is_some()
    }

    fn status(&self) -> Option<GameStatus> {
        self.sess.game.as_ref().and_then(|g| catch(|| g.get_game_status()))
    }

    fn finished(&self) -> bool {
        !matches!(self.status(), Some(GameStatus::Ongoing) | Some(GameStatus::DrawOffered(_)))
    }

    fn act(&mut self, a: &Action) -> &'static str {
        let before = self.finished();
        let (o, class) = self.sess.op_act(a);
        let kind = match a {
            Action::MakeMove(_) => "move",
            Action::OfferDraw(_) => "offer",
            Action::AcceptDraw => "accept",
            Action::DeclineDraw => "decline",
            Action::Resign(_) => "resign",
        };
        self.out.stats.inc(&format!("actions.{kind}.{class}"));
        self.out.emit(&format!("g.act {}", action_text(a)), &o);
        self.acts += 1;
        if !before && self.finished() {
            let s = self.status().map_or("unknown", gstatus_text);
            self.out.stats.inc(&format!("game_endings.{s}"));
        }
        class
    }

    fn hist(&mut self) {
        let o = self.sess.op_hist();
        self.out.emit("g.hist", &o);
    }

    /// counter probes: for each linear projection a constructed board outside the history that agrees with the current (or the
    /// start) position on that projection of the hash; the counter of such a board is 0 unless its full hash occurs in the game
    fn probes(&mut self, rng: &mut Rng) {
        let gm = match self.sess.game.as_ref() { Some(g) => g, None => return };
        let targets: Vec<ChessBoard> = catch(|| {
            let h = gm.get_action_history().get_positions();
            let mut v = vec![gm.get_position()];
            if let Some(f) = h.first() { v.push(*f); }
            v
        }).unwrap_or_default();
        // (seventh wave, C11-g / C12-g) boards differing from a history position in exactly ONE square (an extra man - pawns
        // on the back ranks included - or a man replaced by another type / colour): a different position, so never counted
        for (ti, p) in targets.iter().enumerate() {
            for k in 0..6 {
                if let Some(q) = catch(|| one_square_variant(p, k + ti, rng)).flatten() {
                    self.out.stats.inc("game.probe_one_square");
                    let o = self.sess.op_probe(&q);
                    if let Some(r) = raw(&q) {
                        self.out.emit(&format!("g.probe {r}"), &o);
                    }
                }
            }
        }
        for (pi, (name, proj)) in PROJECTIONS.iter().enumerate() {
            let p = match targets.get(pi % targets.len().max(1)) { Some(p) => *p, None => return };
            match catch(|| colliding_board(&p, *proj, rng)).flatten() {
                Some(q) => {
                    self.out.stats.inc(&format!("game.probe_{name}"));
                    let o = self.sess.op_probe(&q);
                    if let Some(r) = raw(&q) {
                        self.out.emit(&format!("g.probe {r}"), &o);
                    }
                }
                None => self.out.stats.inc(&format!("game.probe_{name}_not_constructed")),
            }
        }
    }

    /// custom metadata before an export (`games.rs: as_pgn`, the non-primary keys): well-formed tags round-trip, a value with a
    /// character outside the importer's value class (`'`) is silently dropped by the import - model and code must agree on both
    fn tags(&mut self, variant: usize) {
        const SETS: [&[(&str, &str)]; 4] = [
            &[("White", "Kasparov, Garry"), ("Black", "Deep Blue"), ("Event", "IBM Man-Machine"), ("Site", "New York, NY USA"),
              ("Date", "1997.05.11"), ("Round", "6"), ("ECO", "B17"), ("Annotator", "x"), ("TimeControl", "40/7200:3600")],
            &[("Opening", "Queen's Gambit"), ("White", "A"), ("Zeta", "z"), ("alpha", "a"), ("Eve", "e")],
            &[("Event", ""), ("Note", "two  spaces\tand a tab"), ("_x", "1/2-1/2"), ("X9", "?")],
            &[("Result", "1-0")],
        ];
        for (k, v) in SETS[variant % 4].iter() {
            let o = self.sess.op_tag(k, v);
            self.out.stats.inc("pgn.custom_tags_set");
            self.out.emit(&format!("g.tag {} {}", hex(k), hex(v)), &o);
        }
    }

    fn pgn(&mut self) {
        let o = self.sess.op_pgn();
        let rt = o.rsplit("rt=").next().unwrap_or("").to_string();
        self.out.stats.inc(&format!("pgn_roundtrip.rt_{rt}"));
        self.out.emit("g.pgn", &o);
        // the regex tokenizer on the exported text and on mutations of it (model: Model/PgnRegex.lean)
        if let Some(text) = self.sess.game.as_ref().and_then(|g| catch(|| g.as_pgn())) {
            let pats = pgn_patterns();
            let mut variants: Vec<String> = vec![text.clone(), text.replace('\n', "\r\n")];
            let bytes: Vec<char> = text.chars().collect();
            let n = bytes.len().max(1);
            let alphabet: Vec<char> = "NBRQKOabcdefgh12345678x=+#-./ \n0?*\r".chars().collect();
            let mut h: u64 = 0x9e3779b97f4a7c15 ^ (n as u64);
            let mut next = |m: usize| -> usize { h ^= h << 13; h ^= h >> 7; h ^= h << 17; (h % m as u64) as usize };
            for _ in 0..6 {
                let mut v = bytes.clone();
                match next(4) {
                    0 => { let i = next(n); if i < v.len() { v.remove(i); } }
                    1 => { let i = next(n + 1).min(v.len()); v.insert(i, alphabet[next(alphabet.len())]); }
                    2 => { let i = next(n); if i < v.len() { v[i] = alphabet[next(alphabet.len())]; } }
                    _ => { let i = next(n).min(v.len()); let j = (i + 1 + next(12)).min(v.len()); let seg: Vec<char> = v[i..j].to_vec(); for (k, c) in seg.into_iter().enumerate() { v.insert(j + k, c); } }
                }
                variants.push(v.into_iter().collect());
            }
            for v in variants {
                self.out.stats.inc("pgn.rx_texts");
                self.out.emit(&format!("rx {}", hex(&v)), &obs_rx(&pats, &v));
            }
        }
    }

    fn end(&mut self) {
        let s = self.status().map_or("unknown", gstatus_text);
        self.out.stats.inc(&format!("sessions.final_status_{s}"));
        self.out.stats.inc(&format!(
            "sessions.history_len_{}",
            match self.sess.game.as_ref().map_or(0, |g| g.get_action_history().get_moves().len()) {
                0 => "000",
                1..=9 => "001-009",
                10..=49 => "010-049",
                50..=149 => "050-149",
                _ => "150+",
            }
        ));
    }

    /// A weighted random legal move of the current position (None: no legal move / panic).
    fn legal_choice(&self, rng: &mut Rng) -> Option<(BoardMove, MoveClass)> { self.legal_choice_bias(rng, false) }

    fn legal_choice_bias(&self, rng: &mut Rng, castle_bias: bool) -> Option<(BoardMove, MoveClass)> {
        let g = self.sess.game.as_ref()?;
        let pos = catch(|| g.get_position())?;
        let legal = catch(|| pos.get_legal_moves())?;
        choose_weighted_bias(&pos, &legal, rng, castle_bias)
    }

    fn position(&self) -> Option<ChessBoard> { self.sess.game.as_ref().and_then(|g| catch(|| g.get_position())) }
}

fn mv(text: &str) -> Action { Action::MakeMove(BoardMove::from_str(text).unwrap()) }

const NON_MOVES: [Action; 6] = [
    Action::OfferDraw(Color::White),
    Action::OfferDraw(Color::Black),
    Action::AcceptDraw,
    Action::DeclineDraw,
    Action::Resign(Color::White),
    Action::Resign(Color::Black),
];

/// Roots of the exhaustive sequences: (label, FEN, prefix moves, alphabet moves, full
/// non-move alphabet?).  Roots with a prefix use the reduced non-move alphabet
/// {offer:w, accept, decline, resign:b} to keep the replayed prefixes affordable.
const ROOTS: [(&str, &str, &[&str], &[&str], bool); 47] = [
    ("start", gen::START_FEN, &[], &["e2e4", "e7e5", "Ng1f3"], true),
    ("mate_w", "6k1/5ppp/8/8/8/8/8/R3K3 w Q - 0 1", &[], &["Ra1a8", "Ke1e2", "O-O-O", "Ra1b2"], true),
    ("mate_b", "r3k3/8/8/8/8/8/5PPP/6K1 b q - 0 1", &[], &["Ra8a1", "Ke8e7", "O-O-O", "Kg1f1"], true),
    ("mate_clock99", "6k1/5ppp/8/8/8/8/8/R3K3 w Q - 99 60", &[], &["Ra1a8", "Ke1e2", "Kg8f8"], true),
    ("stale_q", "7k/8/8/5Q2/8/8/8/K7 w - - 0 1", &[], &["Qf5f7", "Qf5f8", "Ka1b1", "Kh8g7"], true),
    ("stale_p", "3k4/3P4/4K3/8/8/8/8/8 w - - 0 1", &[], &["Ke6d6", "Ke6e5", "Kd8d7", "Kd8c7"], true),
    ("insuff_capture", "8/8/8/3k4/8/8/1p6/K7 w - - 0 1", &[], &["Ka1b2", "Ka1a2", "Kd5d4", "b2b1=Q"], true),
    ("insuff_promo", "8/P6k/8/8/8/8/8/K7 w - - 0 1", &[], &["a7a8=N", "a7a8=Q", "a7a8=B", "Kh7g7"], true),
    ("insuff_b", "4k3/8/8/8/8/8/3N4/3bK3 b - - 0 1", &[], &["Bd1e2", "Ke8e7", "Ke1d1", "Ke1e2"], true),
    ("clock99_w", "4k3/8/8/8/8/8/4P3/4K2R w K - 99 80", &[], &["Ke1d1", "e2e4", "O-O", "Rh1h8"], true),
    ("clock99_b", "4k2r/4p3/8/8/8/8/8/4K3 b k - 99 80", &[], &["Ke8d8", "e7e5", "O-O", "Ke1e2"], true),
    ("clock98", "4k3/8/8/8/8/8/4P3/4K2R w K - 98 80", &[], &["Ke1d1", "Ke8d8", "e2e3", "e2e4"], true),
    (
        "shuffle_w",
        "8/8/8/p3k3/P7/4K3/8/8 w - - 0 1",
        &["Ke3d3", "Ke5d5", "Kd3e3", "Kd5e5", "Ke3d3", "Ke5d5", "Kd3e3"],
        &["Kd5e5", "Kd5c5", "Ke3d3"],
        false,
    ),
    (
        "shuffle_b",
        "8/8/8/p3k3/P7/4K3/8/8 b - - 0 1",
        &["Ke5d5", "Ke3d3", "Kd5e5", "Kd3e3", "Ke5d5", "Ke3d3", "Kd5e5"],
        &["Kd3e3", "Kd3c3", "Ke5d5"],
        false,
    ),
    (
        "shuffle_rights",
        "r3k2r/8/8/8/8/8/8/R3K2R w KQkq - 0 1",
        &[
            "Ra1b1", "Ra8b8", "Rb1a1", "Rb8a8", "Ra1b1", "Ra8b8", "Rb1a1", "Rb8a8", "Ra1b1", "Ra8b8", "Rb1a1",
        ],
        &["Rb8a8", "Rb8c8", "O-O"],
        false,
    ),
    // third occurrence exactly when the half-move clock reaches 100 (fifty-move has precedence), and one ply either side
    (
        "shuffle_clock92",
        "8/8/8/p3k3/P7/4K3/8/8 w - - 92 60",
        &["Ke3d3", "Ke5d5", "Kd3e3", "Kd5e5", "Ke3d3", "Ke5d5", "Kd3e3"],
        &["Kd5e5", "Kd5c5", "Ke3d3"],
        false,
    ),
    (
        "shuffle_clock91",
        "8/8/8/p3k3/P7/4K3/8/8 w - - 91 60",
        &["Ke3d3", "Ke5d5", "Kd3e3", "Kd5e5", "Ke3d3", "Ke5d5", "Kd3e3"],
        &["Kd5e5", "Kd5c5", "Ke3d3"],
        false,
    ),
    (
        "shuffle_clock93_b",
        "8/8/8/p3k3/P7/4K3/8/8 b - - 93 60",
        &["Ke5d5", "Ke3d3", "Kd5e5", "Kd3e3", "Ke5d5", "Ke3d3", "Kd5e5"],
        &["Kd3e3", "Kd3c3", "Ke5d5"],
        false,
    ),
    // a piece (not a pawn) lands on the en-passant square: not a capture
    (
        "piece_onto_ep_w",
        gen::START_FEN,
        &["Nb1c3", "e7e5", "Nc3b5", "d7d5"],
        &["Nb5d6", "Nb5c7", "e2e4", "c7c6"],
        false,
    ),
    (
        "piece_onto_ep_b",
        gen::START_FEN,
        &["a2a3", "Nb8c6", "e2e4", "Nc6b4", "d2d4"],
        &["Nb4d3", "Nb4c2", "e7e5", "c2c3"],
        false,
    ),
    // a position with an en-passant right and the same placement without it are different positions (repetition counting)
    (
        "ep_then_shuffle",
        "4k3/8/8/8/3p4/8/4P3/4K3 w - - 0 1",
        &["e2e4", "Ke8d8", "Ke1d1", "Kd8e8", "Kd1e1", "Ke8d8", "Ke1d1", "Kd8e8"],
        &["Kd1e1", "Kd1d2", "d4e3"],
        false,
    ),
    (
        "ep_then_shuffle_b",
        "4k3/4p3/8/3P4/8/8/8/4K3 b - - 0 1",
        &["e7e5", "Ke1d1", "Ke8d8", "Kd1e1", "Kd8e8", "Ke1d1", "Ke8d8", "Kd1e1"],
        &["Kd8e8", "Kd8d7", "d5e6"],
        false,
    ),
    // en-passant capture discovering a check through the captured pawn's square
    ("ep_discovers_check_w", "8/4p3/8/R2P3k/8/8/8/4K3 b - - 0 1", &["e7e5"], &["d5e6", "Ra5a6", "Ke1e2", "Kh5h4"], false),
    ("ep_discovers_check_b", "4k3/8/2b5/8/3p4/8/4P1K1/8 w - - 0 1", &["e2e4"], &["d4e3", "Bc6d7", "Ke8e7", "Kg2g3"], false),
    // castling that gives check / mate (flags of the recorded move)
    ("castle_check", "5k2/8/8/8/8/8/8/4K2R w K - 0 1", &[], &["O-O", "Rh1f1", "Ke1e2", "Kf8e8"], true),
    ("castle_mate", "2rkr3/2p1p3/8/8/8/8/8/R3K3 w Q - 0 1", &[], &["O-O-O", "Ra1d1", "Ke1e2", "Kd8d7"], true),
    // (fourth wave, C11-d) the placement after a double pawn push recurs with the OTHER side to move and no en-passant right
    // (one side loses a tempo by a queen triangle): different positions that differ in exactly two features
    ("tempo_w_a", gen::START_FEN, &["e2e3", "e7e6", "a2a4", "Qd8e7", "Ng1f3", "Qe7f6", "Nf3g1"], &["Qf6d8", "Qf6e7"], false),
    ("tempo_w_b", gen::START_FEN, &["e2e3", "e7e6", "b2b4", "Qd8e7", "Ng1f3", "Qe7f6", "Nf3g1"], &["Qf6d8", "Qf6e7"], false),
    ("tempo_w_c", gen::START_FEN, &["e2e3", "e7e6", "c2c4", "Qd8e7", "Ng1f3", "Qe7f6", "Nf3g1"], &["Qf6d8", "Qf6e7"], false),
    ("tempo_w_d", gen::START_FEN, &["e2e3", "e7e6", "d2d4", "Qd8e7", "Ng1f3", "Qe7f6", "Nf3g1"], &["Qf6d8", "Qf6e7"], false),
    ("tempo_w_e", gen::START_FEN, &["d2d3", "e7e6", "e2e4", "Qd8e7", "Ng1f3", "Qe7f6", "Nf3g1"], &["Qf6d8", "Qf6e7"], false),
    ("tempo_w_f", gen::START_FEN, &["e2e3", "e7e6", "f2f4", "Qd8e7", "Ng1f3", "Qe7f6", "Nf3g1"], &["Qf6d8", "Qf6e7"], false),
    ("tempo_w_g", gen::START_FEN, &["e2e3", "e7e6", "g2g4", "Qd8e7", "Ng1f3", "Qe7f6", "Nf3g1"], &["Qf6d8", "Qf6e7"], false),
    ("tempo_w_h", gen::START_FEN, &["e2e3", "e7e6", "h2h4", "Qd8e7", "Ng1f3", "Qe7f6", "Nf3g1"], &["Qf6d8", "Qf6e7"], false),
    ("tempo_b_a", gen::START_FEN, &["e2e3", "e7e6", "Qd1e2", "a7a5", "Qe2f3", "Ng8f6", "Qf3d1", "Nf6g8"], &["Qd1e2", "Qd1f3"], false),
    ("tempo_b_b", gen::START_FEN, &["e2e3", "e7e6", "Qd1e2", "b7b5", "Qe2f3", "Ng8f6", "Qf3d1", "Nf6g8"], &["Qd1e2", "Qd1f3"], false),
    ("tempo_b_c", gen::START_FEN, &["e2e3", "e7e6", "Qd1e2", "c7c5", "Qe2f3", "Ng8f6", "Qf3d1", "Nf6g8"], &["Qd1e2", "Qd1f3"], false),
    ("tempo_b_d", gen::START_FEN, &["e2e3", "e7e6", "Qd1e2", "d7d5", "Qe2f3", "Ng8f6", "Qf3d1", "Nf6g8"], &["Qd1e2", "Qd1f3"], false),
    ("tempo_b_e", gen::START_FEN, &["e2e3", "d7d6", "Qd1e2", "e7e5", "Qe2f3", "Ng8f6", "Qf3d1", "Nf6g8"], &["Qd1e2", "Qd1f3"], false),
    ("tempo_b_f", gen::START_FEN, &["e2e3", "e7e6", "Qd1e2", "f7f5", "Qe2f3", "Ng8f6", "Qf3d1", "Nf6g8"], &["Qd1e2", "Qd1f3"], false),
    ("tempo_b_g", gen::START_FEN, &["e2e3", "e7e6", "Qd1e2", "g7g5", "Qe2f3", "Ng8f6", "Qf3d1", "Nf6g8"], &["Qd1e2", "Qd1f3"], false),
    ("tempo_b_h", gen::START_FEN, &["e2e3", "e7e6", "Qd1e2", "h7h5", "Qe2f3", "Ng8f6", "Qf3d1", "Nf6g8"], &["Qd1e2", "Qd1f3"], false),
    // (ninth wave, C11-i) a piece visits the EMPTY home corner of a wing whose right is already gone while the owner still holds
    // the other right, and the position recurs: nothing about the position key changes on such a visit
    ("corner_visit_w", "r3k3/8/8/n3B3/8/8/8/4K3 w q - 0 1", &["Be5h8", "Na5b3", "Bh8e5", "Nb3a5"], &["Be5h8", "Be5d4"], false),
    ("corner_visit_b", "4k3/8/8/8/N2b4/8/8/4K2R b K - 0 1", &["Bd4a1", "Na4b6", "Ba1d4", "Nb6a4"], &["Bd4a1", "Bd4e5"], false),
    // (seventh wave, C13-g) mate delivered right after the mated side's double pawn push, along a line through the skipped square
    // (fool's mate and its mirror): the recorded flags and the `#` of the last move
    ("fools_mate_b", gen::START_FEN, &["f2f3", "e7e5", "g2g4"], &["Qd8h4", "Qd8f6"], false),
    ("fools_mate_w", gen::START_FEN, &["e2e4", "f7f6", "d2d4", "g7g5"], &["Qd1h5", "Qd1f3"], false),
    (
        "shuffle_knights",
        gen::START_FEN,
        &["Ng1f3", "Ng8f6", "Nf3g1", "Nf6g8", "Ng1f3", "Ng8f6", "Nf3g1"],
        &["Nf6g8", "Nf6e4", "e2e4"],
        false,
    ),
];

fn exhaustive(tier: usize, out: &mut Out) {
    let len = GAME_EXHAUSTIVE_LEN[tier];
    for (label, fen, prefix, moves, full) in ROOTS {
        let b = match catch(|| ChessBoard::from_fen(fen).ok()).flatten() {
            Some(b) => b,
            None => {
                out.stats.inc("game.roots_rejected");
                continue;
            }
        };
        let mut alphabet: Vec<Action> = moves.iter().map(|m| mv(m)).collect();
        if full {
            alphabet.extend(NON_MOVES);
        } else {
            alphabet.extend([
                Action::OfferDraw(Color::White),
                Action::AcceptDraw,
                Action::DeclineDraw,
                Action::Resign(Color::Black),
            ]);
        }
        let n = alphabet.len();
        // a root with a replayed prefix is one symbol shorter at the thorough tier
        let l = if prefix.is_empty() { len } else { len.min(3) };
        let total = n.pow(l as u32);
        // empty-history session
        {
            let mut sx = Sx::new(out);
            if sx.start(&b) {
                sx.hist();
                sx.end();
            }
        }
        for code in 0..total {
            if !out.room() {
                return;
            }
            out.stats.inc(&format!("game.exhaustive_sessions_{label}"));
            let mut sx = Sx::new(out);
            if !sx.start(&b) {
                break;
            }
            for p in prefix.iter() {
                sx.act(&mv(p));
            }
            let mut c = code;
            let mut seq = vec![0usize; l];
            for i in (0..l).rev() {
                seq[i] = c % n;
                c /= n;
            }
            for &i in &seq {
                sx.act(&alphabet[i]);
            }
            sx.hist();
            sx.end();
        }
    }
}

fn random_sessions(tier: usize, seed: u64, out: &mut Out) {
    let seeds = load_seeds(&mut out.stats);
    if seeds.is_empty() {
        return;
    }
    let mut rng = Rng::new(seed, 601);
    for si in 0..GAME_RANDOM_SESSIONS[tier] {
        if !out.room() {
            return;
        }
        // start: seeds in rotation; every third session after a random legal prefix
        let mut b = seeds[si % seeds.len()].1;
        if si % 3 == 2 {
            for _ in 0..rng.below(30) {
                let legal = catch(|| b.get_legal_moves()).unwrap_or_default();
                match choose_weighted(&b, &legal, &mut rng) {
                    Some((m, _)) => match catch(|| b.make_move(&m).ok()).flatten() {
                        Some(nb) => b = nb,
                        None => break,
                    },
                    None => break,
                }
            }
        }
        let mut sx = Sx::new(out);
        if !sx.start(&b) {
            continue;
        }
        sx.out.stats.inc("game.random_sessions");
        let max_actions = rng.range(3, GAME_RANDOM_MAX_ACTIONS[tier]);
        let mut after_end = 0;
        for _ in 0..max_actions {
            if sx.finished() {
                after_end += 1;
                if after_end > 2 {
                    break;
                }
            }
            let offered = matches!(sx.status(), Some(GameStatus::DrawOffered(_)));
            let roll = rng.below(1000);
            let action: Option<Action> = if offered {
                match roll {
                    0..=549 => Some(Action::DeclineDraw),
                    550..=649 => Some(Action::AcceptDraw),
                    650..=799 => sx.legal_choice(&mut rng).map(|c| Action::MakeMove(c.0)),
                    800..=899 => Some(Action::OfferDraw(if rng.pct(50) { Color::White } else { Color::Black })),
                    _ => Some(Action::Resign(if rng.pct(50) { Color::White } else { Color::Black })),
                }
            } else {
                match roll {
                    0..=819 => match sx.legal_choice(&mut rng) {
                        Some((m, class)) => {
                            note_played(&mut sx.out.stats, &class);
                            Some(Action::MakeMove(m))
                        }
                        None => Some(Action::OfferDraw(Color::White)),
                    },
                    820..=889 => sx
                        .position()
                        .and_then(|p| random_illegal(&p, &mut rng))
                        .map(Action::MakeMove),
                    890..=949 => Some(Action::OfferDraw(if rng.pct(50) { Color::White } else { Color::Black })),
                    950..=969 => Some(Action::AcceptDraw),
                    970..=989 => Some(Action::DeclineDraw),
                    _ => Some(Action::Resign(if rng.pct(50) { Color::White } else { Color::Black })),
                }
            };
            if let Some(a) = action {
                sx.act(&a);
                if sx.acts % GAME_HIST_EVERY == 0 {
                    sx.hist();
                }
            }
        }
        sx.hist();
        sx.probes(&mut rng);
        sx.end();
    }
}

/// (fifth wave, C13-e) games through the G7c shape: a double pawn push gives check and the en-passant capture is the only
/// reply (or one of two) - played as a game, so that the recorded flags and the rendered suffix of the push (`+`, not `#`), the
/// status after it and the reply itself are observed through `Game`.
fn g7c_sessions(tier: usize, seed: u64, out: &mut Out) {
    let mut rng = Rng::new(seed, 607);
    let want = [40usize, 2_000][tier];
    let mut kept = 0;
    let mut tries = 0;
    while kept < want && tries < want * 20_000 && out.room() {
        tries += 1;
        if let Some((before, push, _after)) = gen::g7c_candidate(&mut rng) {
            kept += 1;
            let mut sx = Sx::new(out);
            if !sx.start(&before) {
                continue;
            }
            sx.out.stats.inc("game.g7c_sessions");
            sx.act(&Action::MakeMove(push));
            sx.hist();
            if let Some((m, _)) = sx.legal_choice(&mut rng) {
                sx.act(&Action::MakeMove(m));
            }
            sx.hist();
            sx.end();
        }
    }
}

pub fn game(tier: usize, seed: u64, out: &mut Out) {
    exhaustive(tier, out);
    g7c_sessions(tier, seed, out);
    random_sessions(tier, seed, out);
}

/// pgn group.  Base game i has a target length: 0,1,2,3,5,8 for the first six, then uniform in
/// 0..=PGN_MAX_PLIES.  The moves are chosen while the first variant is played (weighted, hence
/// castling-heavy) and replayed for the other ending variants: open, offer:w pending, offer:b
/// pending, offer:w + accept, offer:b + decline, resign:w, resign:b.  A game that ended by
/// itself (mate, stalemate, declared draws) has the single variant "natural" followed by one
/// `resign:w` to observe `finished`.
pub fn pgn(tier: usize, seed: u64, out: &mut Out) {
    let start = match catch(|| ChessBoard::from_fen(gen::START_FEN).ok()).flatten() {
        Some(b) => b,
        None => return,
    };
    let mut rng = Rng::new(seed, 701);
    let endings: [(&str, &[Action]); 7] = [
        ("open", &[]),
        ("offer_w_pending", &[Action::OfferDraw(Color::White)]),
        ("offer_b_pending", &[Action::OfferDraw(Color::Black)]),
        ("accepted", &[Action::OfferDraw(Color::White), Action::AcceptDraw]),
        ("declined", &[Action::OfferDraw(Color::Black), Action::DeclineDraw]),
        ("resign_w", &[Action::Resign(Color::White)]),
        ("resign_b", &[Action::Resign(Color::Black)]),
    ];
    // scripted games first: shapes random play practically never reaches
    //  * three knights that can all reach one square (file+rank disambiguation `Ng4f6+`), game left open / resigned
    //  * a game that ends by itself through threefold repetition (declared draw + result token on import)
    const SCRIPTS: [(&str, &[&str]); 7] = [
        ("three_knights", &["h2h4", "g7g5", "h4g5", "h7h6", "g5h6", "a7a6", "h6h7", "a6a5", "h7g8=N", "a5a4", "Nb1c3", "b7b6",
            "Nc3e4", "b6b5", "Ng1f3", "c7c6", "Nf3e5", "c6c5", "Ne5g4", "d7d6", "Ng4f6"]),
        ("castle_check", &["f2f4", "e7e5", "f4e5", "f7f6", "e5f6", "Ng8h6", "f6g7", "Ke8f7", "g7h8=Q", "Qd8e7", "Ng1h3", "d7d6", "e2e3",
            "Bc8g4", "Bf1c4", "Bg4e6", "O-O", "Kf7g6", "Bc4e6", "Qe7e6"]),
        ("repetition", &["Ng1f3", "Ng8f6", "Nf3g1", "Nf6g8", "Ng1f3", "Ng8f6", "Nf3g1", "Nf6g8"]),
        // b-pawn capture where a bishop could capture on the same square: `bxc3` and `Bxc3` differ in case only
        // the start position occurs for the second time, then every ending (a declined offer must not count as an occurrence)
        ("two_occurrences", &["Ng1f3", "Ng8f6", "Nf3g1", "Nf6g8"]),
        ("two_occurrences_b", &["Ng1f3", "Nb8c6", "Nb1c3", "Ng8f6", "Nf3g1", "Nc6b8", "Nc3b1", "Nf6g8"]),
        ("pawn_vs_bishop_w", &["d2d4", "Ng8f6", "Bc1d2", "Nf6e4", "Ng1f3", "Ne4c3", "b2c3", "d7d5"]),
        ("pawn_vs_bishop_b", &["Ng1f3", "d7d6", "Nf3d4", "Bc8d7", "Nd4c6", "b7c6", "e2e4"]),
    ];
    for (name, script) in SCRIPTS.iter() {
        for (vname, acts) in endings.iter() {
            let mut sx = Sx::new(out);
            if !sx.start(&start) {
                break;
            }
            sx.out.stats.inc(&format!("pgn.script_{name}_{vname}"));
            for m in script.iter() {
                match BoardMove::from_str(m) {
                    Ok(bm) => { sx.act(&Action::MakeMove(bm)); }
                    Err(_) => { sx.out.stats.inc("pgn.script_bad_move_text"); }
                }
            }
            let ended = sx.finished();
            if !ended {
                for a in acts.iter() {
                    sx.act(a);
                }
            }
            sx.hist();
            sx.pgn();
            sx.end();
            if ended {
                break;
            }
        }
    }
    for gi in 0..PGN_BASE_GAMES[tier] {
        if !out.room() {
            return;
        }
        let target = match gi {
            0 => 0,
            1 => 1,
            2 => 2,
            3 => 3,
            4 => 5,
            5 => 8,
            _ => rng.below(PGN_MAX_PLIES + 1),
        };
        // variant 0: choose the moves
        let mut moves: Vec<BoardMove> = Vec::new();
        let mut natural = false;
        {
            let mut sx = Sx::new(out);
            if !sx.start(&start) {
                continue;
            }
            if gi % 3 == 1 {
                sx.tags(gi / 3);
            }
            sx.out.stats.inc("pgn.base_games");
            for _ in 0..target {
                if sx.finished() {
                    break;
                }
                match sx.legal_choice_bias(&mut rng, true) {
                    Some((m, class)) => {
                        note_played(&mut sx.out.stats, &class);
                        if sx.act(&Action::MakeMove(m)) != "ok" {
                            break;
                        }
                        moves.push(m);
                    }
                    None => break,
                }
            }
            if sx.finished() {
                natural = true;
                sx.out.stats.inc("pgn.variant_natural");
                sx.hist();
                sx.pgn();
                sx.act(&Action::Resign(Color::White));
            } else {
                sx.out.stats.inc("pgn.variant_open");
                sx.hist();
                sx.pgn();
            }
            sx.out.stats.inc(&format!(
                "pgn.length_{}",
                match moves.len() {
                    0 => "000",
                    1..=9 => "001-009",
                    10..=49 => "010-049",
                    50..=149 => "050-149",
                    _ => "150-300",
                }
            ));
            sx.end();
        }
        if natural {
            continue;
        }
        for (name, acts) in endings.iter().skip(1) {
            let mut sx = Sx::new(out);
            if !sx.start(&start) {
                break;
            }
            if gi % 3 == 1 {
                sx.tags(gi / 3);
            }
            sx.out.stats.inc(&format!("pgn.variant_{name}"));
            for m in &moves {
                sx.act(&Action::MakeMove(*m));
            }
            for a in acts.iter() {
                sx.act(a);
            }
            sx.hist();
            sx.pgn();
            sx.end();
        }
    }
}
