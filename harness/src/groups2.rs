//! Group drivers (part 2): `fen` and `parse`.

use crate::gen::*;
use crate::groups::with_raw;
use crate::obs::*;
use crate::obs2::*;
use crate::strings::*;
use crate::util::*;
use crate::*;
use libchess::*;

fn len_bucket(n: usize) -> String {
    match n {
        0..=9 => format!("{n:02}"),
        10..=19 => "10-19".to_string(),
        20..=39 => "20-39".to_string(),
        40..=79 => "40-79".to_string(),
        80..=199 => "80-199".to_string(),
        200..=999 => "200-999".to_string(),
        _ => "1000+".to_string(),
    }
}

/// Emits a parse op, counting string length (in chars) and outcome class per op and source.
fn emit_parse(out: &mut Out, op: &str, source: &str, text: &str, f: fn(&str) -> (String, &'static str)) {
    let (o, class) = f(text);
    let key = op.replace('.', "_");
    out.stats.inc(&format!("parse_{key}.class_{class}"));
    out.stats.inc(&format!("parse_{key}.source_{source}.{class}"));
    out.stats.inc(&format!("parse_{key}.len_{}", len_bucket(text.chars().count())));
    if !text.is_ascii() {
        out.stats.inc(&format!("parse_{key}.non_ascii"));
    }
    out.emit(&format!("{op} {}", hex(text)), &o);
}

fn emit_pfen(out: &mut Out, source: &str, text: &str) {
    let (o, class) = obs_pfen(text);
    out.stats.inc(&format!("parse_pfen.class_{class}"));
    out.stats.inc(&format!("parse_pfen.source_{source}.{class}"));
    out.stats.inc(&format!("parse_pfen.len_{}", len_bucket(text.chars().count())));
    if let Some(i) = o.find("c=err:") {
        let kind = o[i + 6..].split(' ').next().unwrap_or("");
        out.stats.inc(&format!("parse_pfen.errkind_{kind}"));
    }
    if !text.is_ascii() {
        out.stats.inc("parse_pfen.non_ascii");
    }
    out.emit(&format!("pfen {}", hex(text)), &o);
}

pub fn fen(tier: usize, seed: u64, out: &mut Out) {
    let mut valid_fens: Vec<String> = Vec::new();
    let mut corrupted = 0usize;
    let total: usize = POS_FEN[tier].iter().sum();
    let corrupt_every = (total / FEN_CORRUPT_POSITIONS[tier].max(1)).max(1);
    let mut count = 0usize;
    all_sources(POS_FEN[tier], seed, out, &mut |out, v, rng| {
        let b = v.board;
        with_raw(out, b, |out, r| out.emit(&format!("fen {r}"), &obs_fen(b)));
        // the board OBJECT reached through make_move (incrementally maintained hash, masks, flag) must round-trip as well
        if let Some(m) = v.played {
            if let Some(nb) = catch(|| b.make_move(&m).ok()).flatten() {
                with_raw(out, &nb, |out, r| out.emit(&format!("fen {r}"), &obs_fen(&nb)));
            }
        }
        let f = match catch(|| b.as_fen()) {
            Some(f) => f,
            None => return,
        };
        emit_pfen(out, "visited", &f);
        count += 1;
        if valid_fens.len() < 4000 && count % 3 == 0 {
            valid_fens.push(f.clone());
        }
        if count % corrupt_every == 0 && corrupted < FEN_CORRUPT_POSITIONS[tier] {
            corrupted += 1;
            let pl = catch(|| placement(b));
            let chk = catch(|| b.get_check_mask().bits() != 0).unwrap_or(false);
            if let Some(pl) = pl {
                for (kind, text) in corruptions(&pl, &f, chk, rng) {
                    let src = if kind == "ep" { "corrupt_ep".to_string() } else { format!("corrupt_{kind}") };
                    emit_pfen(out, &src, &text);
                }
            }
        }
    });
    out.stats.add("fen.positions_corrupted", corrupted as u64);

    // (sixth wave, C10-f) the castling field exhaustively: every string of length <= 4 over `K Q k q -` on a board where all
    // four rights are consistent, and the en-passant field over a small alphabet on a board with an en-passant pawn
    {
        let alpha = ['K', 'Q', 'k', 'q', '-'];
        let mut fields: Vec<String> = vec![String::new()];
        let mut layer: Vec<String> = vec![String::new()];
        for _ in 0..4 {
            let mut next = Vec::new();
            for f in &layer {
                for a in alpha {
                    next.push(format!("{f}{a}"));
                }
            }
            fields.extend(next.iter().cloned());
            layer = next;
        }
        for f in &fields {
            emit_pfen(out, "castle_field", &format!("r3k2r/8/8/8/8/8/8/R3K2R w {f} - 0 1"));
        }
        let ealpha = ['a', 'e', 'h', '3', '6', '1', '8', '-', 'E'];
        let mut efields: Vec<String> = Vec::new();
        for a in ealpha {
            efields.push(a.to_string());
            for b in ealpha {
                efields.push(format!("{a}{b}"));
                for c in ['3', '6', '-', 'e'] {
                    efields.push(format!("{a}{b}{c}"));
                }
            }
        }
        for f in &efields {
            emit_pfen(out, "ep_field", &format!("4k3/8/8/8/4P3/8/8/4K3 b - {f} 0 1"));
            emit_pfen(out, "ep_field", &format!("4k3/8/8/4p3/8/8/8/4K3 w - {f} 0 1"));
        }
    }

    let mut rng = Rng::new(seed, 401);
    // random 64-cell builder contents: BoardBuilder -> Display -> pfen
    for _ in 0..FEN_BUILDER_RANDOM[tier] {
        let density = rng.range(0, 64);
        let text = catch(|| {
            let mut bb = BoardBuilder::new();
            for s in 0..64 {
                if rng.below(64) < density {
                    let p = Piece(pt(rng.below(6)), if rng.pct(50) { Color::White } else { Color::Black });
                    bb.put_piece_on_square(sq(s), Some(p));
                }
            }
            bb.set_side_to_move(if rng.pct(50) { Color::White } else { Color::Black });
            bb.set_castling_rights(Color::White, CastlingRights::from_index(rng.below(4)).unwrap());
            bb.set_castling_rights(Color::Black, CastlingRights::from_index(rng.below(4)).unwrap());
            bb.set_en_passant(if rng.pct(30) { Some(sq(rng.below(64))) } else { None });
            bb.set_moves_since_capture_or_pawn_move(rng.below(200));
            bb.set_move_number(rng.below(300));
            format!("{bb}")
        });
        match text {
            Some(t) => emit_pfen(out, "builder_random", &t),
            None => out.stats.inc("fen.builder_display_panics"),
        }
    }
    // clocks
    let bases = [START_FEN, "4k3/8/8/8/8/8/4P3/4K3 w - - 0 1", "r3k2r/8/8/8/8/8/8/R3K2R b KQkq - 0 1"];
    for base in bases {
        let t: Vec<&str> = base.split(' ').collect();
        for c in CLOCK_TEXTS {
            emit_pfen(out, "clocks", &format!("{} {} {} {} {} {}", t[0], t[1], t[2], t[3], c, t[5]));
            emit_pfen(out, "clocks", &format!("{} {} {} {} {} {}", t[0], t[1], t[2], t[3], t[4], c));
            emit_pfen(out, "clocks", &format!("{} {} {} {} {} {}", t[0], t[1], t[2], t[3], c, c));
        }
    }
    // grammar
    for _ in 0..FEN_GRAMMAR[tier] {
        let t = grammar_fen(&mut rng);
        emit_pfen(out, "grammar", &t);
    }
    if valid_fens.is_empty() {
        valid_fens.push(START_FEN.to_string());
    }
    // mutations of valid FENs
    for _ in 0..FEN_MUTATIONS[tier] {
        let base = rng.pick(&valid_fens).clone();
        let (kind, mut t) = mutate(&base, &FEN_POOL, false, &mut rng);
        if rng.pct(15) {
            t = mutate(&t, &FEN_POOL, false, &mut rng).1;
        }
        out.stats.inc(&format!("fen.mutation_{kind}"));
        emit_pfen(out, "mutation", &t);
    }
    // multi-byte splices
    for i in 0..FEN_SPLICES[tier] {
        let base = rng.pick(&valid_fens).clone();
        let cs: Vec<char> = base.chars().collect();
        let at = rng.below(cs.len() + 1);
        let ins = ['é', '€', 'ß', '♔'][i % 4];
        let mut v = cs.clone();
        if rng.pct(50) && at < v.len() {
            v[at] = ins;
        } else {
            v.insert(at, ins);
        }
        emit_pfen(out, "splice", &v.into_iter().collect::<String>());
    }
}

/// Random games exported through `as_pgn` (weighted moves; random ending).
fn random_pgn_exports(n: usize, rng: &mut Rng, out: &mut Out) -> Vec<String> {
    let mut v = Vec::new();
    for _ in 0..n {
        let text = catch(|| {
            let mut g = Game::default();
            let plies = rng.below(120);
            for _ in 0..plies {
                if g.get_game_status() != GameStatus::Ongoing {
                    break;
                }
                let pos = g.get_position();
                let legal = pos.get_legal_moves();
                match choose_weighted_bias(&pos, &legal, rng, true) {
                    Some((m, _)) => {
                        if g.make_move(&Action::MakeMove(m)).is_err() {
                            break;
                        }
                    }
                    None => break,
                }
            }
            if g.get_game_status() == GameStatus::Ongoing {
                match rng.below(5) {
                    0 => {
                        let _ = g.make_move(&Action::Resign(Color::White));
                    }
                    1 => {
                        let _ = g.make_move(&Action::Resign(Color::Black));
                    }
                    2 => {
                        let _ = g.make_move(&Action::OfferDraw(Color::Black));
                        let _ = g.make_move(&Action::AcceptDraw);
                    }
                    3 => {
                        let _ = g.make_move(&Action::OfferDraw(Color::White));
                    }
                    _ => {}
                }
            }
            g.as_pgn()
        });
        match text {
            Some(t) => v.push(t),
            None => out.stats.inc("parse.pgn_export_panics"),
        }
    }
    v
}

pub fn parse(tier: usize, seed: u64, out: &mut Out) {
    let mut rng = Rng::new(seed, 501);
    // exhaustive pmove
    let alpha_move = ["a", "h", "1", "8", "N", "K", "x", "=", "O", "-", "é", "€", "Q", " "];
    enumerate_strings(&alpha_move, PARSE_PMOVE_MAXLEN[tier], &mut |s| {
        emit_parse(out, "pmove", "exhaustive", s, obs_pmove)
    });
    // exhaustive psq / pfile / prank / ppiece
    let alpha_small = ["a", "h", "i", "1", "8", "9", "P", "n", "é", "€"];
    let small_ops: [(&str, fn(&str) -> (String, &'static str)); 4] =
        [("psq", obs_psq), ("pfile", obs_pfile), ("prank", obs_prank), ("ppiece", obs_ppiece)];
    for (op, f) in small_ops {
        enumerate_strings(&alpha_small, PARSE_SMALL_MAXLEN, &mut |s| emit_parse(out, op, "exhaustive", s, f));
    }
    // (eighth wave, C18-h) ... and over the WHOLE 7-bit range: every one- and two-character ASCII text (16,512 per parser)
    for (op, f) in small_ops {
        for a in 0u8..128 {
            let one = (a as char).to_string();
            emit_parse(out, op, "ascii1", &one, f);
            for b in 0u8..128 {
                let two: String = [a as char, b as char].iter().collect();
                emit_parse(out, op, "ascii2", &two, f);
            }
        }
    }
    // every printed universe move (C16)
    let uni = universe();
    let mut printed: Vec<String> = Vec::with_capacity(uni.len());
    for m in &uni {
        let t = move_text(m);
        emit_parse(out, "pmove", "printed", &t, obs_pmove);
        printed.push(t);
    }
    // mutations of printed moves
    for _ in 0..PARSE_MOVE_MUTATIONS[tier] {
        let base = rng.pick(&printed).clone();
        let (kind, mut t) = mutate(&base, &MOVE_POOL, false, &mut rng);
        if rng.pct(10) {
            t = mutate(&t, &MOVE_POOL, false, &mut rng).1;
        }
        out.stats.inc(&format!("parse.move_mutation_{kind}"));
        emit_parse(out, "pmove", "mutation", &t, obs_pmove);
    }
    // PGN texts
    let mut bases: Vec<(String, String)> = Vec::new();
    let mut names: Vec<String> = std::fs::read_dir(examples_dir())
        .map(|d| d.filter_map(|e| e.ok()).map(|e| e.path().to_string_lossy().to_string()).collect())
        .unwrap_or_default();
    names.sort();
    for n in names {
        if let Ok(t) = std::fs::read_to_string(&n) {
            out.stats.inc("parse.pgn_example_files");
            bases.push(("example".to_string(), t));
        }
    }
    for c in PGN_CASES {
        emit_parse(out, "g.frompgn", "case", c, obs_frompgn);
    }
    for t in random_pgn_exports(PARSE_PGN_GAMES[tier], &mut rng, out) {
        bases.push(("export".to_string(), t));
    }
    for (src, t) in &bases {
        emit_parse(out, "g.frompgn", src, t, obs_frompgn);
        let cs: Vec<char> = t.chars().collect();
        // missing blank line; CRLF; no result / other result
        emit_parse(out, "g.frompgn", "noblank", &t.replacen("\n\n", "\n", 1), obs_frompgn);
        emit_parse(out, "g.frompgn", "crlf", &t.replace('\n', "\r\n"), obs_frompgn);
        for k in 0..PARSE_PGN_MUTATIONS_PER_TEXT[tier] {
            // truncation at a random char boundary
            let cut = rng.below(cs.len() + 1);
            emit_parse(out, "g.frompgn", "truncation", &cs[..cut].iter().collect::<String>(), obs_frompgn);
            // edits restricted to the movetext so that the blank line survives most of the time
            let (head, tail) = match t.find("\n\n") {
                Some(i) => (&t[..i + 2], &t[i + 2..]),
                None => ("", &t[..]),
            };
            let (kind, mt) = mutate(tail, &PGN_POOL, true, &mut rng);
            out.stats.inc(&format!("parse.pgn_mutation_{kind}"));
            emit_parse(out, "g.frompgn", "movetext_mutation", &format!("{head}{mt}"), obs_frompgn);
            if k % 2 == 0 {
                let (_, whole) = mutate(t, &PGN_POOL, false, &mut rng);
                emit_parse(out, "g.frompgn", "whole_mutation", &whole, obs_frompgn);
            }
            // multi-byte splice
            let at = rng.below(cs.len() + 1);
            let mut v = cs.clone();
            v.insert(at, if k % 2 == 0 { 'é' } else { '€' });
            emit_parse(out, "g.frompgn", "splice", &v.into_iter().collect::<String>(), obs_frompgn);
        }
    }
    // garbage
    let garbage_n = if tier == 0 { 200 } else { 5000 };
    for _ in 0..garbage_n {
        let n = rng.below(60);
        let mut s: String = (0..n).map(|_| *rng.pick(&PGN_POOL[..])).collect();
        if rng.pct(60) {
            s = format!("\n\n{s}");
        }
        emit_parse(out, "g.frompgn", "garbage", &s, obs_frompgn);
    }
}
