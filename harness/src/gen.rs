//! Position sources G1 (playouts), G2 (synthetic), G3 (small-material families).

use crate::obs::*;
use crate::util::*;
use crate::{Out, PLAYOUT_MAX_PLIES, SEEDS_FILE};
use libchess::*;

pub const START_FEN: &str = "rnbqkbnr/pppppppp/8/8/8/8/PPPPPPPP/RNBQKBNR w KQkq - 0 1";

/// One visited position.  `played` is the move the playout is about to play from it (G1 only).
pub struct Visit<'a> {
    pub board: &'a ChessBoard,
    pub played: Option<BoardMove>,
    #[allow(dead_code)]
    pub gen: usize, // 1, 2, 3
}

/// Standard start followed by the accepted FENs of seeds.txt (rejected ones are counted).
pub fn load_seeds(stats: &mut Stats) -> Vec<(String, ChessBoard)> {
    let mut v = Vec::new();
    if let Some(Ok(b)) = catch(|| ChessBoard::from_fen(START_FEN)) {
        v.push((START_FEN.to_string(), b));
    }
    let text = std::fs::read_to_string(SEEDS_FILE).unwrap_or_default();
    for line in text.lines() {
        let l = line.trim();
        if l.is_empty() || l.starts_with('#') || l == START_FEN {
            continue;
        }
        match catch(|| ChessBoard::from_fen(l)) {
            Some(Ok(b)) => v.push((l.to_string(), b)),
            Some(Err(e)) => {
                eprintln!("harness: seed FEN rejected ({e}): {l}");
                stats.inc("gen.seed_fens_rejected")
            }
            None => {
                eprintln!("harness: seed FEN panicked: {l}");
                stats.inc("gen.seed_fens_panicked")
            }
        }
    }
    stats.add("gen.seed_fens_loaded", v.len() as u64);
    v
}

#[derive(Default, Clone, Copy)]
pub struct MoveClass {
    pub ep: bool,
    pub castle: bool,
    pub promo: bool,
    pub capture: bool,
    pub corner_capture: bool,
    pub rights_move: bool,
    pub check: bool,
    /// a non-pawn man lands on the en-passant square (not a capture; C13 flags)
    pub onto_ep: bool,
}

impl MoveClass {
    pub fn special(&self) -> bool {
        self.ep || self.castle || self.promo || self.corner_capture || self.rights_move || self.check || self.onto_ep
    }
}

/// Classification of a legal move (guarded; a panic gives the all-false class).
pub fn classify(b: &ChessBoard, m: &BoardMove) -> MoveClass {
    catch(|| {
        let mut c = MoveClass::default();
        let stm = b.get_side_to_move();
        match m {
            BoardMove::MovePiece(p) => {
                let d = p.get_destination_square();
                c.ep = p.get_piece_type() == PieceType::Pawn && b.get_en_passant() == Some(d);
                c.onto_ep = p.get_piece_type() != PieceType::Pawn && b.get_en_passant() == Some(d);
                c.promo = p.get_promotion().is_some();
                c.capture = c.ep || !b.is_empty_square(d);
                c.corner_capture = c.capture && matches!(d.to_index(), 0 | 7 | 56 | 63);
                c.rights_move = matches!(p.get_piece_type(), PieceType::Rook | PieceType::King)
                    && b.get_castle_rights(stm).has_any();
            }
            _ => c.castle = true,
        }
        if let Ok(nb) = b.make_move(m) {
            c.check = nb.get_check_mask().bits() != 0;
        }
        c
    })
    .unwrap_or_default()
}

pub fn note_played(stats: &mut Stats, c: &MoveClass) {
    stats.inc("played.moves");
    if c.ep {
        stats.inc("played.ep_captures");
    }
    if c.castle {
        stats.inc("played.castlings");
    }
    if c.promo {
        stats.inc("played.promotions");
    }
    if c.capture {
        stats.inc("played.captures");
    }
    if c.corner_capture {
        stats.inc("played.corner_captures");
    }
    if c.rights_move {
        stats.inc("played.rook_or_king_moves_with_rights");
    }
    if c.check {
        stats.inc("played.checks");
    }
    if c.onto_ep {
        stats.inc("played.piece_onto_ep_square");
    }
}

/// Weighted choice: weight 8 for special moves, 1 otherwise.
pub fn choose_weighted(b: &ChessBoard, legal: &[BoardMove], rng: &mut Rng) -> Option<(BoardMove, MoveClass)> {
    choose_weighted_bias(b, legal, rng, false)
}

/// Like `choose_weighted`; with `castle_bias` (pgn group, "castling-heavy") castling weighs 64,
/// and while the side to move still holds a right: moves that vacate b/c/d/f/g of its back rank
/// weigh 8, first moves of its b/d/e/g pawns weigh 4, and its rook / king moves (which would
/// destroy the right) weigh 1 instead of 8.
pub fn choose_weighted_bias(
    b: &ChessBoard,
    legal: &[BoardMove],
    rng: &mut Rng,
    castle_bias: bool,
) -> Option<(BoardMove, MoveClass)> {
    if legal.is_empty() {
        return None;
    }
    let classes: Vec<MoveClass> = legal.iter().map(|m| classify(b, m)).collect();
    let holds = castle_bias
        && catch(|| b.get_castle_rights(b.get_side_to_move()).has_any()).unwrap_or(false);
    let back = catch(|| b.get_side_to_move().get_back_rank().to_index()).unwrap_or(0);
    let pawn_rank = if back == 0 { 1 } else { 6 };
    // pgn group only (fourth wave, C15-d): moves whose notation collides with another legal move's notation once case,
    // capture mark, promotion mark and check suffix are ignored (`bxc3` / `Bxc3`, `Nf3` / `Nf3+` cannot both be legal, but
    // `exd8=Q` / `exd8=N`, `Rad1` / `Rfd1` are separated only by such marks) weigh 256: an importer that normalises
    // tokens too eagerly shows only there
    let near: Vec<bool> = if castle_bias {
        let sans: Vec<Option<String>> = legal
            .iter()
            .map(|m| catch(|| MovePropertiesOnBoard::new(m, b).ok().map(|p| m.to_string(p))).flatten())
            .collect();
        let norm = |t: &String| -> String { t.to_lowercase().chars().filter(|c| !matches!(c, '+' | '#' | 'x' | '=')).collect() };
        let keys: Vec<Option<String>> = sans.iter().map(|t| t.as_ref().map(norm)).collect();
        (0..legal.len()).map(|i| keys[i].is_some() && (0..legal.len()).any(|j| j != i && keys[j] == keys[i])).collect()
    } else {
        vec![false; legal.len()]
    };
    let weights: Vec<usize> = legal
        .iter()
        .zip(classes.iter())
        .enumerate()
        .map(|(i, (m, c))| {
            if near[i] {
                return 256;
            }
            // same piece type to the same square as another legal move (disambiguated tokens, promotion choices)
            if castle_bias {
                if let BoardMove::MovePiece(p) = m {
                    let twin = legal.iter().enumerate().any(|(j, o)| j != i && matches!(o, BoardMove::MovePiece(q)
                        if q.get_piece_type() == p.get_piece_type() && q.get_destination_square() == p.get_destination_square()));
                    if twin {
                        return 24;
                    }
                }
            }
            if castle_bias && c.castle {
                return 64;
            }
            if holds {
                if c.rights_move {
                    return 1;
                }
                if let BoardMove::MovePiece(p) = m {
                    let s = p.get_source_square().to_index();
                    if s / 8 == back && matches!(s % 8, 1 | 2 | 3 | 5 | 6) {
                        return 8;
                    }
                    if p.get_piece_type() == PieceType::Pawn && s / 8 == pawn_rank && matches!(s % 8, 1 | 3 | 4 | 6) {
                        return 4;
                    }
                }
            }
            if c.onto_ep || c.corner_capture || c.ep {
                48
            } else if c.promo {
                16
            } else if c.special() {
                8
            } else {
                1
            }
        })
        .collect();
    let total: usize = weights.iter().sum();
    let mut r = rng.below(total);
    for (i, w) in weights.iter().enumerate() {
        if r < *w {
            return Some((legal[i], classes[i]));
        }
        r -= w;
    }
    Some((legal[0], classes[0]))
}

/// Counters describing a visited position.
pub fn note_position(stats: &mut Stats, b: &ChessBoard, gen: usize) {
    stats.inc(&format!("positions.g{gen}"));
    let _ = catch(|| {
        stats.inc("positions.total");
        let chk = b.get_check_mask().count_ones();
        if chk > 0 {
            stats.inc("positions.in_check");
        }
        if chk > 1 {
            stats.inc("positions.in_double_check");
        }
        if b.get_pin_mask().bits() != 0 {
            stats.inc("positions.with_pins");
        }
        if b.get_en_passant().is_some() {
            stats.inc("positions.with_ep_square");
        }
        if b.is_terminal() {
            stats.inc("positions.terminal");
        }
        if b.get_castle_rights(Color::White).has_any() || b.get_castle_rights(Color::Black).has_any() {
            stats.inc("positions.with_castling_rights");
        }
        if b.castling_is_available_on_board(None).has_any() {
            stats.inc("positions.castling_available");
        }
        stats.inc(match b.get_side_to_move() {
            Color::White => "positions.white_to_move",
            Color::Black => "positions.black_to_move",
        });
        if b.get_moves_since_capture_or_pawn_move() >= 100 {
            stats.inc("positions.halfclock_ge_100");
        }
        stats.inc(&format!("status.{}", status_text(b.get_status())));
        let men = b.get_combined_mask().count_ones();
        let bucket = match men {
            0..=3 => "02-03",
            4..=7 => "04-07",
            8..=15 => "08-15",
            16..=23 => "16-23",
            24..=31 => "24-31",
            _ => "32",
        };
        stats.inc(&format!("men.{bucket}"));
    });
}

// ---------------------------------------------------------------------------------------------
// G1
// ---------------------------------------------------------------------------------------------

/// Runs G1 playouts until `budget` positions were handed to `f`.  Sources are visited round
/// robin (start position first).  Every playout has a random ply bound in 8..=PLAYOUT_MAX_PLIES;
/// when the budget is too small to cover all sources once, positions are handed out with a
/// probability chosen so that the budget is spread over all sources.  A playout stops at a
/// position without legal moves, when the library panics, or at its bound.
pub fn g1(
    seeds: &[(String, ChessBoard)],
    budget: usize,
    rng: &mut Rng,
    out: &mut Out,
    f: &mut dyn FnMut(&mut Out, &Visit, &mut Rng),
) {
    if seeds.is_empty() || budget == 0 {
        return;
    }
    let cap = PLAYOUT_MAX_PLIES[out.tier];
    let expected = seeds.len() * cap / 2;
    let permille = if budget >= expected { 1000 } else { (budget * 1000 / expected).max(1) };
    let mut visited = 0usize;
    let mut round = 0usize;
    while visited < budget && round < 100_000 {
        for (si, (_, start)) in seeds.iter().enumerate() {
            if visited >= budget || !out.room() {
                return;
            }
            out.stats.inc("gen.g1_playouts");
            out.stats.inc(&format!("seedfen.{si:02}"));
            let bound = rng.range(8, cap);
            let mut b = *start;
            for ply in 0..=bound {
                let legal = match catch(|| b.get_legal_moves()) {
                    Some(l) => l,
                    None => {
                        out.stats.inc("gen.g1_legal_panics");
                        break;
                    }
                };
                let choice = if ply == bound { None } else { choose_weighted(&b, &legal, rng) };
                if rng.below(1000) < permille {
                    note_position(&mut out.stats, &b, 1);
                    f(out, &Visit { board: &b, played: choice.map(|c| c.0), gen: 1 }, rng);
                    visited += 1;
                }
                let (m, class) = match choice {
                    Some(c) => c,
                    None => {
                        if legal.is_empty() {
                            out.stats.inc("gen.g1_playouts_ended_terminal");
                        }
                        break;
                    }
                };
                match catch(|| b.make_move(&m)) {
                    Some(Ok(nb)) => {
                        note_played(&mut out.stats, &class);
                        b = nb;
                    }
                    _ => {
                        out.stats.inc("gen.g1_make_move_failures");
                        break;
                    }
                }
                if visited >= budget {
                    break;
                }
            }
        }
        round += 1;
    }
}

// ---------------------------------------------------------------------------------------------
// G2
// ---------------------------------------------------------------------------------------------

const CLOCKS: [usize; 9] = [0, 1, 49, 50, 98, 99, 100, 101, 150];

fn draw_clock(rng: &mut Rng) -> usize {
    let i = rng.below(CLOCKS.len() + 1);
    if i < CLOCKS.len() {
        CLOCKS[i]
    } else {
        rng.below(400)
    }
}

/// One G2 candidate: 2..=32 men (n uniform), both kings once, other men uniform over
/// {P,N,B,R,Q} x {w,b} on random empty squares; a pawn drawn onto rank 1/8 is kept with 5 %
/// probability, otherwise its square is redrawn.  Rights: each of the four rights whose king and
/// rook stand on their home squares is granted with probability 1/2.  Ep: 50 % when a
/// consistent square exists (uniform among them).  Both clocks are drawn independently from
/// {0,1,49,50,98,99,100,101,150, uniform 0..400}.
pub fn g2_candidate(rng: &mut Rng) -> Option<ChessBoard> {
    // (sixth wave, C20-f) validity bounds only the kings: one candidate in twelve is CROWDED, 33..=62 men
    let n = if rng.pct(8) { rng.range(33, 62) } else { rng.range(2, 32) };
    let mut cells: [Option<Piece>; 64] = [None; 64];
    let wk = rng.below(64);
    cells[wk] = Some(Piece(PieceType::King, Color::White));
    let mut bk = rng.below(64);
    while bk == wk {
        bk = rng.below(64);
    }
    cells[bk] = Some(Piece(PieceType::King, Color::Black));
    for _ in 2..n {
        let t = pt(rng.below(5));
        let c = if rng.pct(50) { Color::White } else { Color::Black };
        for _try in 0..200 {
            let s = rng.below(64);
            if cells[s].is_some() {
                continue;
            }
            if t == PieceType::Pawn && (s < 8 || s >= 56) && !rng.pct(5) {
                continue;
            }
            cells[s] = Some(Piece(t, c));
            break;
        }
    }
    let stm = if rng.pct(50) { Color::White } else { Color::Black };
    let is = |s: usize, t: PieceType, c: Color| cells[s] == Some(Piece(t, c));
    let mut rights = [0usize; 2];
    for (ci, c) in [Color::White, Color::Black].into_iter().enumerate() {
        let base = ci * 56;
        if is(base + 4, PieceType::King, c) {
            if is(base, PieceType::Rook, c) && rng.pct(50) {
                rights[ci] |= 1;
            }
            if is(base + 7, PieceType::Rook, c) && rng.pct(50) {
                rights[ci] |= 2;
            }
        }
    }
    let mut eps = Vec::new();
    for f in 0..8 {
        match stm {
            Color::White => {
                let (e, p, o) = (40 + f, 32 + f, 48 + f);
                if cells[e].is_none() && cells[o].is_none() && is(p, PieceType::Pawn, Color::Black) {
                    eps.push(e);
                }
            }
            Color::Black => {
                let (e, p, o) = (16 + f, 24 + f, 8 + f);
                if cells[e].is_none() && cells[o].is_none() && is(p, PieceType::Pawn, Color::White) {
                    eps.push(e);
                }
            }
        }
    }
    let ep = if !eps.is_empty() && rng.pct(50) { Some(sq(*rng.pick(&eps))) } else { None };
    let half = draw_clock(rng);
    let full = draw_clock(rng);
    let pcs: Vec<(Square, Piece)> = (0..64).filter_map(|i| cells[i].map(|p| (sq(i), p))).collect();
    let wr = CastlingRights::from_index(rights[0]).unwrap();
    let br = CastlingRights::from_index(rights[1]).unwrap();
    catch(|| ChessBoard::setup(&pcs, stm, wr, br, ep, half, full).ok()).flatten()
}

pub fn g2(budget: usize, rng: &mut Rng, out: &mut Out, f: &mut dyn FnMut(&mut Out, &Visit, &mut Rng)) {
    let mut kept = 0usize;
    let mut tries = 0usize;
    while kept < budget && tries < budget * 400 + 1000 && out.room() {
        tries += 1;
        out.stats.inc("gen.g2_candidates");
        if let Some(b) = g2_candidate(rng) {
            kept += 1;
            out.stats.inc("gen.g2_kept");
            note_position(&mut out.stats, &b, 2);
            f(out, &Visit { board: &b, played: None, gen: 2 }, rng);
        }
    }
}

// ---------------------------------------------------------------------------------------------
// G7 — directed low-mobility positions (added after seeded changes C03-a / C04-a)
// ---------------------------------------------------------------------------------------------

/// One G7 candidate: 3..=10 men, own king preferably on an edge, enemy men preferred (so that the side to move has few
/// moves); with probability 60 % an en-passant configuration is forced (own pawn next to an enemy pawn that "just" made a
/// double push), and in half of those the own king is put on the pawns' rank with an enemy rook/queen on that rank on
/// the other side of the two pawns (the rank-discovery pattern).  The implementation's own `get_legal_moves` is used
/// ONLY to bias the sample towards low mobility (≤ 2 legal moves, or an en-passant capture that is pseudo-legal but
/// not legal); verdicts never depend on it.
pub fn g7_candidate(rng: &mut Rng) -> Option<(ChessBoard, &'static str)> {
    let mut cells: [Option<Piece>; 64] = [None; 64];
    let stm = if rng.pct(50) { Color::White } else { Color::Black };
    let (own, opp) = (stm, if stm == Color::White { Color::Black } else { Color::White });
    let (pr, er, or) = if stm == Color::White { (4usize, 5usize, 6usize) } else { (3, 2, 1) };
    let mut ep: Option<usize> = None;
    let mut kind = "lowmob";
    let mut own_king: Option<usize> = None;
    if rng.pct(60) {
        let f = rng.below(8);
        let gf = if f == 0 { 1 } else if f == 7 { 6 } else if rng.pct(50) { f - 1 } else { f + 1 };
        cells[pr * 8 + f] = Some(Piece(PieceType::Pawn, own));
        cells[pr * 8 + gf] = Some(Piece(PieceType::Pawn, opp));
        ep = Some(er * 8 + gf);
        kind = "ep";
        // (ninth wave, C01-i) own pawns on BOTH neighbouring files of the pushed pawn, one of them pinned on its file: king
        // behind it on that file, enemy rook/queen beyond the en-passant rank on the same file
        let of = if gf > f { gf + 1 } else { gf.wrapping_sub(1) };
        if of < 8 && rng.pct(35) {
            cells[pr * 8 + of] = Some(Piece(PieceType::Pawn, own));
            let pf = if rng.pct(50) { f } else { of };
            let (kr, ar): (Vec<usize>, Vec<usize>) = if stm == Color::White { ((0..pr).collect(), (er + 1..8).collect()) } else { ((pr + 1..8).collect(), (0..er).collect()) };
            if !kr.is_empty() && !ar.is_empty() {
                let k = *rng.pick(&kr) * 8 + pf;
                let a = *rng.pick(&ar) * 8 + pf;
                if cells[k].is_none() && cells[a].is_none() {
                    cells[k] = Some(Piece(PieceType::King, own));
                    own_king = Some(k);
                    cells[a] = Some(Piece(if rng.pct(50) { PieceType::Rook } else { PieceType::Queen }, opp));
                    kind = "ep-two-pin";
                }
            }
        }
        if own_king.is_none() && rng.pct(50) {
            // rank discovery: king on one side of the two pawns, enemy R/Q on the other
            let (lo, hi) = (f.min(gf), f.max(gf));
            let left: Vec<usize> = (0..lo).collect();
            let right: Vec<usize> = (hi + 1..8).collect();
            if !left.is_empty() && !right.is_empty() {
                let (kf, sf) = if rng.pct(50) { (*rng.pick(&left), *rng.pick(&right)) } else { (*rng.pick(&right), *rng.pick(&left)) };
                cells[pr * 8 + kf] = Some(Piece(PieceType::King, own));
                own_king = Some(pr * 8 + kf);
                let t = if rng.pct(50) { PieceType::Rook } else { PieceType::Queen };
                cells[pr * 8 + sf] = Some(Piece(t, opp));
                kind = "ep-rank";
            }
        }
    }
    let reserved = |s: usize, ep: Option<usize>| -> bool {
        match ep { Some(e) => s == e || s == (or * 8 + e % 8), None => false }
    };
    if own_king.is_none() {
        for _ in 0..200 {
            let s = if rng.pct(60) { let e = rng.below(28); [0,1,2,3,4,5,6,7,8,16,24,32,40,48,56,57,58,59,60,61,62,63,15,23,31,39,47,55][e] } else { rng.below(64) };
            if cells[s].is_none() && !reserved(s, ep) { cells[s] = Some(Piece(PieceType::King, own)); own_king = Some(s); break; }
        }
    }
    own_king?;
    let mut placed_ok = false;
    for _ in 0..200 {
        let s = rng.below(64);
        if cells[s].is_none() && !reserved(s, ep) { cells[s] = Some(Piece(PieceType::King, opp)); placed_ok = true; break; }
    }
    if !placed_ok { return None; }
    // a third of the ep candidates get a crowd of enemy officers, which makes "stalemate except for an illegal
    // en-passant capture" reachable by rejection sampling
    let crowd = ep.is_some() && rng.pct(35);
    let extra = if crowd { rng.range(4, 9) } else { rng.range(0, 6) };
    for _ in 0..extra {
        let t = if crowd { pt(1 + rng.below(4)) } else { pt(rng.below(5)) };
        let c = if crowd || rng.pct(70) { opp } else { own };
        for _try in 0..50 {
            let s = rng.below(64);
            if cells[s].is_some() || reserved(s, ep) { continue; }
            if t == PieceType::Pawn && (s < 8 || s >= 56) { continue; }
            cells[s] = Some(Piece(t, c));
            break;
        }
    }
    let pcs: Vec<(Square, Piece)> = (0..64).filter_map(|i| cells[i].map(|p| (sq(i), p))).collect();
    let none = CastlingRights::from_index(0).unwrap();
    let b = catch(|| ChessBoard::setup(&pcs, stm, none, none, ep.map(sq), draw_clock(rng), draw_clock(rng)).ok()).flatten()?;
    let legal = catch(|| b.get_legal_moves())?;
    let low = legal.len() <= 2;
    let ep_illegal = match ep {
        Some(e) => {
            // an own pawn attacks the ep square but no legal move lands on it with a pawn
            let has_ep_legal = legal.iter().any(|m| match m { BoardMove::MovePiece(pm) => pm.get_piece_type() == PieceType::Pawn && pm.get_destination_square() == sq(e), _ => false });
            !has_ep_legal
        }
        None => false,
    };
    let incheck = catch(|| b.get_check_mask().bits() != 0).unwrap_or(false);
    if legal.is_empty() && ep_illegal && !incheck {
        return Some((b, "ep-stalemate"));
    }
    if crowd {
        // crowded candidates are only worth keeping when they are (nearly) immobile
        return if legal.len() <= 1 { Some((b, "ep-crowd")) } else { None };
    }
    if kind == "ep-two-pin" { return Some((b, kind)); }
    if low || ep_illegal || rng.pct(3) { Some((b, if low { "lowmob" } else { kind })) } else { None }
}

/// G7b (added after seeded changes C03-b / C04-b): two more rejection-sampled shapes.
///  * "pinned-only": the side to move is not in check, has at least one legal move, and every legal move is made by a
///    piece standing between its king and an enemy slider (king boxed in);
///  * "minimal-terminal": three or four men, each side a lone king or king + one minor piece, and the side to move has no
///    legal move (stalemate or mate with insufficient material).
pub fn g7b_candidate(rng: &mut Rng) -> Option<(ChessBoard, &'static str)> {
    let mut cells: [Option<Piece>; 64] = [None; 64];
    let stm = if rng.pct(50) { Color::White } else { Color::Black };
    let (own, opp) = (stm, if stm == Color::White { Color::Black } else { Color::White });
    let edge: [usize; 28] = [0,1,2,3,4,5,6,7,8,16,24,32,40,48,56,57,58,59,60,61,62,63,15,23,31,39,47,55];
    let corners: [usize; 4] = [0, 7, 56, 63];
    let minimal = rng.pct(40);
    let k = if rng.pct(70) { corners[rng.below(4)] } else { edge[rng.below(28)] };
    cells[k] = Some(Piece(PieceType::King, own));
    let none = CastlingRights::from_index(0).unwrap();
    if minimal {
        // enemy king within distance 2..3, one or two minors
        for _ in 0..50 {
            let s = rng.below(64);
            let d = ((s / 8) as i32 - (k / 8) as i32).abs().max(((s % 8) as i32 - (k % 8) as i32).abs());
            if cells[s].is_none() && (2..=3).contains(&d) { cells[s] = Some(Piece(PieceType::King, opp)); break; }
        }
        if !cells.iter().any(|c| *c == Some(Piece(PieceType::King, opp))) { return None; }
        let minors = [PieceType::Bishop, PieceType::Knight];
        for _ in 0..50 { let s = rng.below(64); if cells[s].is_none() { cells[s] = Some(Piece(minors[rng.below(2)], opp)); break; } }
        if rng.pct(40) { for _ in 0..50 { let s = rng.below(64); if cells[s].is_none() { cells[s] = Some(Piece(minors[rng.below(2)], own)); break; } } }
        let pcs: Vec<(Square, Piece)> = (0..64).filter_map(|i| cells[i].map(|p| (sq(i), p))).collect();
        let b = catch(|| ChessBoard::setup(&pcs, stm, none, none, None, draw_clock(rng), draw_clock(rng)).ok()).flatten()?;
        let legal = catch(|| b.get_legal_moves())?;
        return if legal.is_empty() { Some((b, "minimal-terminal")) } else { None };
    }
    // pinned-only: a line from the king, an own slider/pawn next on it, an enemy slider of the matching kind behind
    let dirs: [(i32, i32); 8] = [(1,0),(-1,0),(0,1),(0,-1),(1,1),(1,-1),(-1,1),(-1,-1)];
    let (dr, df) = dirs[rng.below(8)];
    let at = |r: i32, f: i32| -> Option<usize> { if (0..8).contains(&r) && (0..8).contains(&f) { Some((r * 8 + f) as usize) } else { None } };
    let (kr, kf) = ((k / 8) as i32, (k % 8) as i32);
    let d1 = rng.range(1, 2) as i32;
    let d2 = d1 + rng.range(1, 4) as i32;
    let (p1, p2) = (at(kr + dr * d1, kf + df * d1)?, at(kr + dr * d2, kf + df * d2)?);
    let orth = dr == 0 || df == 0;
    let own_t = if rng.pct(25) { PieceType::Queen } else if orth { PieceType::Rook } else { PieceType::Bishop };
    let opp_t = if rng.pct(30) { PieceType::Queen } else if orth { PieceType::Rook } else { PieceType::Bishop };
    cells[p1] = Some(Piece(own_t, own));
    cells[p2] = Some(Piece(opp_t, opp));
    let mut okk = false;
    for _ in 0..100 { let s = rng.below(64); if cells[s].is_none() { cells[s] = Some(Piece(PieceType::King, opp)); okk = true; break; } }
    if !okk { return None; }
    for _ in 0..rng.range(1, 6) {
        let t = pt(1 + rng.below(4));
        for _ in 0..50 { let s = rng.below(64); if cells[s].is_none() { cells[s] = Some(Piece(t, opp)); break; } }
    }
    let pcs: Vec<(Square, Piece)> = (0..64).filter_map(|i| cells[i].map(|p| (sq(i), p))).collect();
    let b = catch(|| ChessBoard::setup(&pcs, stm, none, none, None, draw_clock(rng), draw_clock(rng)).ok()).flatten()?;
    let legal = catch(|| b.get_legal_moves())?;
    let incheck = catch(|| b.get_check_mask().bits() != 0).unwrap_or(true);
    if incheck || legal.is_empty() { return None; }
    let all_pinned = legal.iter().all(|m| match m { BoardMove::MovePiece(pm) => pm.get_source_square() == sq(p1), _ => false });
    if all_pinned { Some((b, "pinned-only")) } else { None }
}

/// G7c (added after the third wave of seeded changes, which converged on one family): a pawn gives check by its double
/// push and capturing it en passant is the ONLY legal reply (or one of at most two).  The generator builds the position
/// after the push, rejection-samples a crowd of the pusher's officers around the checked king, and returns the
/// PREDECESSOR position together with the double push as the move to play, so that the successor is reached through
/// `make_move` (history-dependent defects in the update chain show only there); the successor itself is returned too.
pub fn g7c_candidate(rng: &mut Rng) -> Option<(ChessBoard, BoardMove, ChessBoard)> {
    let mut cells: [Option<Piece>; 64] = [None; 64];
    let pc = if rng.pct(50) { Color::White } else { Color::Black }; // the side that pushes
    let vc = if pc == Color::White { Color::Black } else { Color::White };
    let (r2, dir): (i32, i32) = if pc == Color::White { (1, 1) } else { (6, -1) };
    let f = rng.below(8) as i32;
    let at = |r: i32, fl: i32| -> Option<usize> { if (0..8).contains(&r) && (0..8).contains(&fl) { Some((r * 8 + fl) as usize) } else { None } };
    let from = at(r2, f)?;
    let mid = at(r2 + dir, f)?;
    let to = at(r2 + 2 * dir, f)?;
    // the checked king stands diagonally in front of the pushed pawn, the capturing pawn next to it on its rank
    let kf = if rng.pct(50) { f - 1 } else { f + 1 };
    let king = at(r2 + 3 * dir, kf)?;
    let cf = if rng.pct(50) { f - 1 } else { f + 1 };
    let capt = at(r2 + 2 * dir, cf)?;
    cells[to] = Some(Piece(PieceType::Pawn, pc));
    cells[king] = Some(Piece(PieceType::King, vc));
    cells[capt] = Some(Piece(PieceType::Pawn, vc));
    let reserved = [from, mid];
    let mut ok = false;
    for _ in 0..100 { let s = rng.below(64); if cells[s].is_none() && !reserved.contains(&s) { cells[s] = Some(Piece(PieceType::King, pc)); ok = true; break; } }
    if !ok { return None; }
    for _ in 0..rng.range(2, 8) {
        let (t, c) = if rng.pct(80) { (pt(rng.below(5)), pc) } else { (pt(rng.below(5)), vc) };
        for _ in 0..50 {
            let s = rng.below(64);
            if cells[s].is_some() || reserved.contains(&s) { continue; }
            if t == PieceType::Pawn && (s < 8 || s >= 56) { continue; }
            cells[s] = Some(Piece(t, c));
            break;
        }
    }
    let none = CastlingRights::from_index(0).unwrap();
    let (half, full) = (0usize, 1 + rng.below(60));
    let pcs_after: Vec<(Square, Piece)> = (0..64).filter_map(|i| cells[i].map(|p| (sq(i), p))).collect();
    let after = catch(|| ChessBoard::setup(&pcs_after, vc, none, none, Some(sq(mid)), half, full).ok()).flatten()?;
    let legal = catch(|| after.get_legal_moves())?;
    if legal.is_empty() || legal.len() > 2 { return None; }
    let all_ep = legal.iter().all(|m| match m {
        BoardMove::MovePiece(pm) => pm.get_piece_type() == PieceType::Pawn && pm.get_destination_square() == sq(mid),
        _ => false });
    if !all_ep && legal.len() > 1 { return None; }
    // predecessor: pawn back on its origin square, pusher to move, no en-passant square
    let mut cells0 = cells;
    cells0[to] = None;
    cells0[from] = Some(Piece(PieceType::Pawn, pc));
    let pcs_before: Vec<(Square, Piece)> = (0..64).filter_map(|i| cells0[i].map(|p| (sq(i), p))).collect();
    let full0 = if pc == Color::Black && full > 1 { full - 1 } else { full };
    let before = catch(|| ChessBoard::setup(&pcs_before, pc, none, none, None, 3, full0).ok()).flatten()?;
    let push = BoardMove::MovePiece(PieceMove::new(PieceType::Pawn, sq(from), sq(to), None).ok()?);
    let lb = catch(|| before.get_legal_moves())?;
    if !lb.contains(&push) { return None; }
    Some((before, push, after))
}

pub fn g7(budget: usize, rng: &mut Rng, out: &mut Out, f: &mut dyn FnMut(&mut Out, &Visit, &mut Rng)) {
    // an eighth of the budget: the G7c pairs (predecessor with the push to play, and the successor itself)
    {
        let b3 = (budget / 8).max(4);
        let mut kept = 0usize;
        let mut tries = 0usize;
        while kept < b3 && tries < b3 * 20000 + 1000 && out.room() {
            tries += 1;
            out.stats.inc("gen.g7c_candidates");
            if let Some((before, push, after)) = g7c_candidate(rng) {
                kept += 2;
                out.stats.inc("gen.g7_kept_ep-only-evasion");
                note_position(&mut out.stats, &before, 7);
                f(out, &Visit { board: &before, played: Some(push), gen: 7 }, rng);
                note_position(&mut out.stats, &after, 7);
                f(out, &Visit { board: &after, played: None, gen: 7 }, rng);
            }
        }
    }
    // a quarter of the budget goes to the G7b shapes
    {
        let b2 = (budget / 4).max(6);
        let mut kept = 0usize;
        let mut tries = 0usize;
        while kept < b2 && tries < b2 * 3000 + 1000 && out.room() {
            tries += 1;
            out.stats.inc("gen.g7b_candidates");
            if let Some((b, kind)) = g7b_candidate(rng) {
                kept += 1;
                out.stats.inc(&format!("gen.g7_kept_{kind}"));
                note_position(&mut out.stats, &b, 7);
                f(out, &Visit { board: &b, played: None, gen: 7 }, rng);
            }
        }
    }
    let mut kept = 0usize;
    let mut tries = 0usize;
    while kept < budget && tries < budget * 400 + 1000 && out.room() {
        tries += 1;
        out.stats.inc("gen.g7_candidates");
        if let Some((b, kind)) = g7_candidate(rng) {
            kept += 1;
            out.stats.inc(&format!("gen.g7_kept_{kind}"));
            note_position(&mut out.stats, &b, 7);
            f(out, &Visit { board: &b, played: None, gen: 7 }, rng);
        }
    }
}

// ---------------------------------------------------------------------------------------------
// G8 — motif composer (added after the fourth wave of seeded changes)
// ---------------------------------------------------------------------------------------------

/// One G8 candidate.  Earlier directed generators were each built around ONE shape; the fourth wave showed that the
/// misses are always "two or three unusual things at once around the king of the side to move" (two pins of one kind,
/// a double check plus a third line piece, a stalemate in which a pinned slider still has pseudo-legal moves ...).  G8
/// therefore composes 1..=4 MOTIFS around the own king on lines radiating from it, then adds a random crowd:
///   * pin      — own man of any type (pawn, knight, bishop, rook, queen) at distance d1 on a random line, enemy slider of
///                the kind matching the line behind it at distance d2 > d1, nothing between (squares reserved);
///   * check    — enemy slider of the matching kind on a random line with the squares between reserved, or an enemy knight
///                a knight's jump away, or an enemy pawn attacking the king;
///   * screen   — like pin but with TWO men between king and slider (own+own, own+enemy or enemy+own): not a pin;
///   * mismatch — a man and behind it an enemy slider of the WRONG kind for the line (rook on a diagonal, bishop on a file);
///   * box      — the own king's free neighbour squares are covered by putting enemy men so that few king moves remain.
/// The side NOT to move must not be in check, which `setup` decides.  The implementation's own move list is used only to
/// bias the sample (kept with certainty when at most 3 legal moves, two or more checkers, or two or more pinned men;
/// otherwise with probability 12 %).
pub fn g8_candidate(rng: &mut Rng) -> Option<(ChessBoard, String)> {
    let mut cells: [Option<Piece>; 64] = [None; 64];
    let mut reserved = [false; 64];
    let stm = if rng.pct(50) { Color::White } else { Color::Black };
    let (own, opp) = (stm, if stm == Color::White { Color::Black } else { Color::White });
    let edge: [usize; 28] = [0,1,2,3,4,5,6,7,8,16,24,32,40,48,56,57,58,59,60,61,62,63,15,23,31,39,47,55];
    let k = if rng.pct(35) { [0usize, 7, 56, 63][rng.below(4)] } else if rng.pct(50) { edge[rng.below(28)] } else { rng.below(64) };
    cells[k] = Some(Piece(PieceType::King, own));
    let (kr, kf) = ((k / 8) as i32, (k % 8) as i32);
    let at = |r: i32, f: i32| -> Option<usize> { if (0..8).contains(&r) && (0..8).contains(&f) { Some((r * 8 + f) as usize) } else { None } };
    let dirs: [(i32, i32); 8] = [(1,0),(-1,0),(0,1),(0,-1),(1,1),(1,-1),(-1,1),(-1,-1)];
    let mut used_dir = [false; 8];
    let n_motifs = rng.range(1, 4);
    let mut label: Vec<&'static str> = Vec::new();
    // squares strictly between the king and a checking slider (where an own man could interpose)
    let mut check_line: Vec<usize> = Vec::new();
    let pawn_ok = |s: usize| -> bool { (8..56).contains(&s) };
    for _ in 0..n_motifs {
        let kind = rng.below(100);
        // choose an unused direction with at least 2 squares
        let mut di = None;
        for _ in 0..16 {
            let d = rng.below(8);
            if used_dir[d] { continue; }
            let (dr, df) = dirs[d];
            if at(kr + 2 * dr, kf + 2 * df).is_some() { di = Some(d); break; }
        }
        let slider_for = |orth: bool, rng: &mut Rng| -> PieceType { if rng.pct(30) { PieceType::Queen } else if orth { PieceType::Rook } else { PieceType::Bishop } };
        if kind < 45 {
            // pin
            let d = match di { Some(d) => d, None => continue };
            let (dr, df) = dirs[d];
            let orth = dr == 0 || df == 0;
            let maxd = (1..8).take_while(|i| at(kr + dr * i, kf + df * i).is_some()).count() as i32;
            if maxd < 2 { continue; }
            let d1 = rng.range(1, (maxd - 1) as usize) as i32;
            let d2 = rng.range((d1 + 1) as usize, maxd as usize) as i32;
            let (p1, p2) = (at(kr + dr * d1, kf + df * d1)?, at(kr + dr * d2, kf + df * d2)?);
            if cells[p1].is_some() || cells[p2].is_some() { continue; }
            if (1..d2).any(|i| { let s = at(kr + dr * i, kf + df * i).unwrap(); cells[s].is_some() }) { continue; }
            let mut t = pt(rng.below(5));
            if t == PieceType::Pawn && !pawn_ok(p1) { t = PieceType::Knight; }
            cells[p1] = Some(Piece(t, own));
            cells[p2] = Some(Piece(slider_for(orth, rng), opp));
            for i in 1..d2 { reserved[at(kr + dr * i, kf + df * i).unwrap()] = true; }
            used_dir[d] = true;
            label.push("pin");
        } else if kind < 70 {
            // check
            let sub = rng.below(10);
            if sub < 6 {
                let d = match di { Some(d) => d, None => continue };
                let (dr, df) = dirs[d];
                let orth = dr == 0 || df == 0;
                let maxd = (1..8).take_while(|i| at(kr + dr * i, kf + df * i).is_some()).count() as i32;
                let d2 = rng.range(1, maxd as usize) as i32;
                let p2 = at(kr + dr * d2, kf + df * d2)?;
                if cells[p2].is_some() { continue; }
                if (1..d2).any(|i| { let s = at(kr + dr * i, kf + df * i).unwrap(); cells[s].is_some() }) { continue; }
                cells[p2] = Some(Piece(slider_for(orth, rng), opp));
                for i in 1..d2 { let s = at(kr + dr * i, kf + df * i).unwrap(); reserved[s] = true; check_line.push(s); }
                used_dir[d] = true;
                label.push("chk");
            } else if sub < 8 {
                let jumps: [(i32, i32); 8] = [(1,2),(2,1),(-1,2),(-2,1),(1,-2),(2,-1),(-1,-2),(-2,-1)];
                let (jr, jf) = jumps[rng.below(8)];
                if let Some(s) = at(kr + jr, kf + jf) { if cells[s].is_none() { cells[s] = Some(Piece(PieceType::Knight, opp)); label.push("nchk"); } }
            } else {
                // enemy pawn attacking the king: it stands one rank "ahead" from the enemy's point of view
                let pr = if opp == Color::White { kr - 1 } else { kr + 1 };
                let pf = if rng.pct(50) { kf - 1 } else { kf + 1 };
                if let Some(s) = at(pr, pf) { if cells[s].is_none() && pawn_ok(s) { cells[s] = Some(Piece(PieceType::Pawn, opp)); label.push("pchk"); } }
            }
        } else if kind < 82 {
            // screen: two men between
            let d = match di { Some(d) => d, None => continue };
            let (dr, df) = dirs[d];
            let orth = dr == 0 || df == 0;
            let maxd = (1..8).take_while(|i| at(kr + dr * i, kf + df * i).is_some()).count() as i32;
            if maxd < 3 { continue; }
            let d3 = rng.range(3, maxd as usize) as i32;
            let d1 = rng.range(1, (d3 - 2) as usize) as i32;
            let d2 = rng.range((d1 + 1) as usize, (d3 - 1) as usize) as i32;
            let (p1, p2, p3) = (at(kr + dr * d1, kf + df * d1)?, at(kr + dr * d2, kf + df * d2)?, at(kr + dr * d3, kf + df * d3)?);
            if (1..=d3).any(|i| { let s = at(kr + dr * i, kf + df * i).unwrap(); cells[s].is_some() }) { continue; }
            let c1 = if rng.pct(65) { own } else { opp };
            let c2 = if rng.pct(50) { own } else { opp };
            let mut t1 = pt(rng.below(5)); if t1 == PieceType::Pawn && !pawn_ok(p1) { t1 = PieceType::Knight; }
            let mut t2 = pt(rng.below(5)); if t2 == PieceType::Pawn && !pawn_ok(p2) { t2 = PieceType::Knight; }
            // an enemy man next to the king on the line must not itself be a checking slider: use knights/pawns for enemy screens
            if c1 == opp { t1 = if pawn_ok(p1) && rng.pct(50) { PieceType::Pawn } else { PieceType::Knight }; }
            cells[p1] = Some(Piece(t1, c1));
            cells[p2] = Some(Piece(t2, c2));
            cells[p3] = Some(Piece(slider_for(orth, rng), opp));
            for i in 1..d3 { reserved[at(kr + dr * i, kf + df * i).unwrap()] = true; }
            used_dir[d] = true;
            label.push("scr");
        } else if kind < 90 {
            // mismatch: wrong kind of slider behind an own man
            let d = match di { Some(d) => d, None => continue };
            let (dr, df) = dirs[d];
            let orth = dr == 0 || df == 0;
            let maxd = (1..8).take_while(|i| at(kr + dr * i, kf + df * i).is_some()).count() as i32;
            if maxd < 2 { continue; }
            let d1 = rng.range(1, (maxd - 1) as usize) as i32;
            let d2 = rng.range((d1 + 1) as usize, maxd as usize) as i32;
            let (p1, p2) = (at(kr + dr * d1, kf + df * d1)?, at(kr + dr * d2, kf + df * d2)?);
            if (1..=d2).any(|i| { let s = at(kr + dr * i, kf + df * i).unwrap(); cells[s].is_some() }) { continue; }
            let mut t = pt(rng.below(5)); if t == PieceType::Pawn && !pawn_ok(p1) { t = PieceType::Knight; }
            cells[p1] = Some(Piece(t, own));
            cells[p2] = Some(Piece(if orth { PieceType::Bishop } else { PieceType::Rook }, opp));
            used_dir[d] = true;
            label.push("mis");
        } else {
            // box: cover neighbour squares with enemy knights/pawns/kings' zone by dropping a few enemy men at distance 2
            for _ in 0..rng.range(1, 3) {
                let (dr, df) = dirs[rng.below(8)];
                let j = rng.range(2, 3) as i32;
                if let Some(s) = at(kr + dr * j, kf + df * j) {
                    if cells[s].is_none() && !reserved[s] {
                        let t = pt(1 + rng.below(4));
                        cells[s] = Some(Piece(t, opp));
                    }
                }
            }
            label.push("box");
        }
    }
    // (seventh wave, C04-g) interposition by a DOUBLE pawn push: when a square of a check line lies on the own fourth rank and the
    // two squares behind it are free, an own pawn is put on its home square (so that positions arise in which the only legal
    // move is that double push)
    if !check_line.is_empty() && rng.pct(60) {
        let (fourth, third, home): (i32, i32, i32) = if own == Color::White { (3, 2, 1) } else { (4, 5, 6) };
        for &s in check_line.iter() {
            if (s / 8) as i32 != fourth { continue; }
            let f = (s % 8) as i32;
            if let (Some(m), Some(h)) = (at(third, f), at(home, f)) {
                if cells[s].is_none() && cells[m].is_none() && cells[h].is_none() {
                    cells[h] = Some(Piece(PieceType::Pawn, own));
                    reserved[m] = true;
                    label.push("dbl");
                    break;
                }
            }
        }
    }
    // (sixth wave, C03-f) promotion motif: with probability 25 % an own pawn one step from promotion (so that positions arise
    // in which every legal move is a promotion)
    if rng.pct(25) {
        let seventh: i32 = if own == Color::White { 6 } else { 1 };
        for _ in 0..8 {
            let f = rng.below(8) as i32;
            if let Some(s) = at(seventh, f) {
                if cells[s].is_none() && !reserved[s] {
                    cells[s] = Some(Piece(PieceType::Pawn, own));
                    label.push("prm");
                    break;
                }
            }
        }
    }
    // enemy king
    let mut okk = false;
    for _ in 0..200 {
        let s = rng.below(64);
        let d = ((s / 8) as i32 - kr).abs().max(((s % 8) as i32 - kf).abs());
        if cells[s].is_none() && !reserved[s] && d >= 2 { cells[s] = Some(Piece(PieceType::King, opp)); okk = true; break; }
    }
    if !okk { return None; }
    // crowd
    let extra = rng.range(0, 7);
    for _ in 0..extra {
        let t = pt(rng.below(5));
        let c = if rng.pct(65) { opp } else { own };
        for _try in 0..30 {
            let s = rng.below(64);
            if cells[s].is_some() || reserved[s] { continue; }
            if t == PieceType::Pawn && !pawn_ok(s) { continue; }
            cells[s] = Some(Piece(t, c));
            break;
        }
    }
    let pcs: Vec<(Square, Piece)> = (0..64).filter_map(|i| cells[i].map(|p| (sq(i), p))).collect();
    let none = CastlingRights::from_index(0).unwrap();
    let b = catch(|| ChessBoard::setup(&pcs, stm, none, none, None, draw_clock(rng), draw_clock(rng)).ok()).flatten()?;
    let legal = catch(|| b.get_legal_moves())?;
    let nchk = catch(|| b.get_check_mask().count_ones()).unwrap_or(0);
    let npin = catch(|| b.get_pin_mask().count_ones()).unwrap_or(0);
    label.sort();
    let mut l = label.join("+");
    if l.is_empty() { l = "none".to_string(); }
    if legal.len() <= 3 || nchk >= 2 || npin >= 2 || rng.pct(12) {
        let tag = if legal.is_empty() { "term" } else if nchk >= 2 { "dblchk" } else if npin >= 2 { "pins2" } else if legal.len() <= 3 { "low" } else { "any" };
        Some((b, format!("{tag}:{l}")))
    } else {
        None
    }
}

pub fn g8(budget: usize, rng: &mut Rng, out: &mut Out, f: &mut dyn FnMut(&mut Out, &Visit, &mut Rng)) {
    let mut kept = 0usize;
    let mut tries = 0usize;
    while kept < budget && tries < budget * 400 + 1000 && out.room() {
        tries += 1;
        out.stats.inc("gen.g8_candidates");
        if let Some((b, kind)) = g8_candidate(rng) {
            kept += 1;
            let tag = kind.split(':').next().unwrap_or("any").to_string();
            out.stats.inc(&format!("gen.g8_kept_{tag}"));
            for m in kind.split(':').nth(1).unwrap_or("none").split('+') { out.stats.inc(&format!("gen.g8_motif_{m}")); }
            note_position(&mut out.stats, &b, 8);
            f(out, &Visit { board: &b, played: None, gen: 8 }, rng);
        }
    }
}

// ---------------------------------------------------------------------------------------------
// G3
// ---------------------------------------------------------------------------------------------

const MAXMEN: usize = 14;
const W: u8 = 0;
const B: u8 = 6;
const P: u8 = 0;
const N: u8 = 1;
const BI: u8 = 2;
const R: u8 = 3;
const Q: u8 = 4;
const K: u8 = 5;

/// Compact position description; piece code = type index + 6 * colour index.
#[derive(Clone, Copy)]
pub struct Spec {
    n: u8,
    pcs: [(u8, u8); MAXMEN],
    stm: u8,
    wr: u8,
    br: u8,
    ep: i8,
    pub fam: u8,
    /// bit 0: place the white king automatically, bit 1: the black king
    auto_king: u8,
}

impl Spec {
    fn new(stm: u8, fam: u8) -> Spec {
        Spec { n: 0, pcs: [(0, 0); MAXMEN], stm, wr: 0, br: 0, ep: -1, fam, auto_king: 0 }
    }

    /// Adds a man; false if the square is already used.
    fn put(&mut self, s: usize, code: u8) -> bool {
        if self.n as usize >= MAXMEN || self.occupied(s) {
            return false;
        }
        self.pcs[self.n as usize] = (s as u8, code);
        self.n += 1;
        true
    }

    fn occupied(&self, s: usize) -> bool { self.pcs[..self.n as usize].iter().any(|p| p.0 as usize == s) }
}

pub const FAMILY_NAMES: [&str; 9] = ["pins_checks", "castling_paths", "ep_discovered", "promo_capture", "three_same", "corner_capture", "castle_check", "ep_discover_enemy", "special_with_ep"];

fn rf(s: usize) -> (i32, i32) { ((s / 8) as i32, (s % 8) as i32) }

/// 1 = same rank/file, 2 = same diagonal, 0 = not aligned (or equal).
fn aligned(a: usize, b: usize) -> u8 {
    if a == b {
        return 0;
    }
    let ((ra, fa), (rb, fb)) = (rf(a), rf(b));
    if ra == rb || fa == fb {
        1
    } else if (ra - rb).abs() == (fa - fb).abs() {
        2
    } else {
        0
    }
}

fn between(a: usize, b: usize) -> Vec<usize> {
    let mut v = Vec::new();
    if aligned(a, b) == 0 {
        return v;
    }
    let ((ra, fa), (rb, fb)) = (rf(a), rf(b));
    let (dr, df) = ((rb - ra).signum(), (fb - fa).signum());
    let (mut r, mut f) = (ra + dr, fa + df);
    while (r, f) != (rb, fb) {
        v.push((r * 8 + f) as usize);
        r += dr;
        f += df;
    }
    v
}

fn knight_from(t: usize) -> Vec<usize> {
    let (r, f) = rf(t);
    let mut v = Vec::new();
    for (dr, df) in [(1, 2), (2, 1), (-1, 2), (-2, 1), (1, -2), (2, -1), (-1, -2), (-2, -1)] {
        let (a, b) = (r + dr, f + df);
        if (0..8).contains(&a) && (0..8).contains(&b) {
            v.push((a * 8 + b) as usize);
        }
    }
    v.sort();
    v
}

fn cheb(a: usize, b: usize) -> i32 {
    let ((ra, fa), (rb, fb)) = (rf(a), rf(b));
    (ra - rb).abs().max((fa - fb).abs())
}

fn mix(a: usize, b: usize, c: usize) -> u64 {
    let mut s = (a as u64) << 40 ^ (b as u64) << 20 ^ c as u64;
    splitmix64(&mut s)
}

fn family_pins_checks(v: &mut Vec<Spec>) {
    let own_block = [P, N, BI, R, Q];
    let pair_types: [(u8, bool); 4] = [(N, true), (P, true), (P, false), (R, true)]; // (type, own?)
    for stm in 0..2u8 {
        let (own, opp) = if stm == 0 { (W, B) } else { (B, W) };
        for k in 0..64 {
            for s in 0..64 {
                let al = aligned(k, s);
                if al == 0 {
                    continue;
                }
                let sliders: [u8; 2] = if al == 1 { [R, Q] } else { [BI, Q] };
                let bt = between(k, s);
                for sl in sliders {
                    let mut base = Spec::new(stm, 0);
                    base.auto_king = if stm == 0 { 2 } else { 1 };
                    base.put(k, K + own);
                    base.put(s, sl + opp);
                    // no blocker: a check; plus one defender / a second checker
                    v.push(base);
                    for (j, t) in [N, BI, R, Q].into_iter().enumerate() {
                        for rep in 0..3 {
                            let d = (mix(k, s, j * 8 + rep) % 64) as usize;
                            let mut sp = base;
                            if sp.put(d, t + own) {
                                v.push(sp);
                            }
                        }
                    }
                    if let Some(&ks) = knight_from(k).iter().find(|&&x| !base.occupied(x)) {
                        let mut sp = base;
                        sp.put(ks, N + opp);
                        v.push(sp);
                    }
                    // one blocker
                    for &x in &bt {
                        let back = x < 8 || x >= 56;
                        for t in own_block {
                            if t == P && back {
                                continue;
                            }
                            let mut sp = base;
                            sp.put(x, t + own);
                            v.push(sp);
                        }
                        for t in [P, N] {
                            if t == P && back {
                                continue;
                            }
                            let mut sp = base;
                            sp.put(x, t + opp);
                            v.push(sp);
                        }
                    }
                    // two blockers
                    for i in 0..bt.len() {
                        for j in (i + 1)..bt.len() {
                            for (t1, o1) in pair_types {
                                for (t2, o2) in pair_types {
                                    let (x, y) = (bt[i], bt[j]);
                                    if (t1 == P && (x < 8 || x >= 56)) || (t2 == P && (y < 8 || y >= 56)) {
                                        continue;
                                    }
                                    let mut sp = base;
                                    sp.put(x, t1 + if o1 { own } else { opp });
                                    sp.put(y, t2 + if o2 { own } else { opp });
                                    v.push(sp);
                                }
                            }
                        }
                    }
                }
            }
        }
    }
}

fn family_castling(v: &mut Vec<Spec>) {
    for wr in 0..4u8 {
        for br in 0..4u8 {
            for stm in 0..2u8 {
                let (own, opp) = if stm == 0 { (W, B) } else { (B, W) };
                let back = if stm == 0 { 0 } else { 56 };
                let mut base = Spec::new(stm, 1);
                base.wr = wr;
                base.br = br;
                base.put(4, K + W);
                base.put(60, K + B);
                if wr & 1 != 0 {
                    base.put(0, R + W);
                }
                if wr & 2 != 0 {
                    base.put(7, R + W);
                }
                if br & 1 != 0 {
                    base.put(56, R + B);
                }
                if br & 2 != 0 {
                    base.put(63, R + B);
                }
                for subset in 0..32usize {
                    let mut sb = base;
                    for (bit, file) in [1usize, 2, 3, 5, 6].into_iter().enumerate() {
                        if subset >> bit & 1 == 1 {
                            sb.put(back + file, N + own);
                        }
                    }
                    for t in [P, N, BI, R, Q] {
                        for s in 0..64 {
                            if t == P && (s < 8 || s >= 56) {
                                continue;
                            }
                            let mut sp = sb;
                            if sp.put(s, t + opp) {
                                v.push(sp);
                            }
                        }
                    }
                }
            }
        }
    }
}

fn family_ep(v: &mut Vec<Spec>) {
    for stm in 0..2u8 {
        let (own, opp) = if stm == 0 { (W, B) } else { (B, W) };
        // White to move: pawns on the 5th rank (index 4), ep on the 6th, origin on the 7th.
        let (pr, er, or) = if stm == 0 { (4usize, 5usize, 6usize) } else { (3, 2, 1) };
        for f in 0..8usize {
            for gf in [f.wrapping_sub(1), f + 1] {
                if gf >= 8 {
                    continue;
                }
                let (own_p, opp_p, ep, origin) = (pr * 8 + f, pr * 8 + gf, er * 8 + gf, or * 8 + gf);
                for k in 0..64 {
                    if [own_p, opp_p, ep, origin].contains(&k) {
                        continue;
                    }
                    for s in 0..64 {
                        if [own_p, opp_p, ep, origin, k].contains(&s) {
                            continue;
                        }
                        let al = aligned(k, s);
                        if al == 0 {
                            continue;
                        }
                        let bt = between(k, s);
                        if !bt.contains(&own_p) && !bt.contains(&opp_p) {
                            continue;
                        }
                        let sliders: [u8; 2] = if al == 1 { [R, Q] } else { [BI, Q] };
                        for sl in sliders {
                            let mut sp = Spec::new(stm, 2);
                            sp.auto_king = if stm == 0 { 2 } else { 1 };
                            sp.ep = ep as i8;
                            sp.put(k, K + own);
                            sp.put(own_p, P + own);
                            sp.put(opp_p, P + opp);
                            sp.put(s, sl + opp);
                            v.push(sp);
                        }
                    }
                }
            }
        }
    }
}

/// Family 8 (fourth wave, C07-d): every kind of special move is available WHILE an en-passant square is set — castling
/// (each rights combination of the side to move, with and without rights of the opponent), rook and king moves that
/// lose rights, a promotion, and the en-passant capture itself (own pawn left / right of the pushed pawn, or none).
fn family_special_with_ep(v: &mut Vec<Spec>) {
    for stm in 0..2u8 {
        let (own, opp) = if stm == 0 { (W, B) } else { (B, W) };
        let (pr, er) = if stm == 0 { (4usize, 5usize) } else { (3, 2) };
        let (back, oback, seventh) = if stm == 0 { (0usize, 56usize, 48usize) } else { (56, 0, 8) };
        for or_ in 1..4u8 {
            for xr in [0u8, 3u8] {
                for f in 0..8usize {
                    for adj in [None, f.checked_sub(1), if f + 1 < 8 { Some(f + 1) } else { None }] {
                        for promo in [false, true] {
                            let mut sp = Spec::new(stm, 8);
                            if stm == 0 { sp.wr = or_; sp.br = xr; } else { sp.br = or_; sp.wr = xr; }
                            sp.put(back + 4, K + own);
                            sp.put(oback + 4, K + opp);
                            if or_ & 1 != 0 { sp.put(back, R + own); }
                            if or_ & 2 != 0 { sp.put(back + 7, R + own); }
                            if xr != 0 { sp.put(oback, R + opp); sp.put(oback + 7, R + opp); }
                            sp.put(pr * 8 + f, P + opp);
                            sp.ep = (er * 8 + f) as i8;
                            if let Some(a) = adj { sp.put(pr * 8 + a, P + own); }
                            if promo {
                                // an own pawn one step from promotion on a file whose promotion square is free
                                let pf = (f + 3) % 8;
                                if pf == 4 || (xr != 0 && (pf == 0 || pf == 7)) { continue; }
                                sp.put(seventh + pf, P + own);
                            }
                            v.push(sp);
                        }
                    }
                }
            }
        }
    }
}

fn family_promo(v: &mut Vec<Spec>) {
    for stm in 0..2u8 {
        let (own, opp) = if stm == 0 { (W, B) } else { (B, W) };
        let (pr, tr) = if stm == 0 { (6usize, 7usize) } else { (1, 0) };
        for f in 0..8usize {
            let pawn = pr * 8 + f;
            for left in [None, Some(R), Some(N)] {
                for right in [None, Some(Q), Some(BI)] {
                    if left.is_none() && right.is_none() {
                        continue;
                    }
                    if (left.is_some() && f == 0) || (right.is_some() && f == 7) {
                        continue;
                    }
                    for front in [None, Some(N)] {
                        let mut base = Spec::new(stm, 3);
                        base.auto_king = if stm == 0 { 2 } else { 1 };
                        base.put(pawn, P + own);
                        if let Some(t) = left {
                            base.put(tr * 8 + f - 1, t + opp);
                        }
                        if let Some(t) = right {
                            base.put(tr * 8 + f + 1, t + opp);
                        }
                        if let Some(t) = front {
                            base.put(tr * 8 + f, t + opp);
                        }
                        for k in 0..64 {
                            if base.occupied(k) || !(aligned(k, pawn) != 0 || cheb(k, pawn) <= 2) {
                                continue;
                            }
                            for s in 0..64 {
                                let al = aligned(k, s);
                                if al == 0 || base.occupied(s) {
                                    continue;
                                }
                                let pinline = between(k, s).contains(&pawn);
                                if !pinline && mix(k, s, f) % 4 != 0 {
                                    continue;
                                }
                                let sliders: [u8; 2] = if al == 1 { [R, Q] } else { [BI, Q] };
                                for sl in sliders {
                                    let mut sp = base;
                                    sp.put(k, K + own);
                                    sp.put(s, sl + opp);
                                    v.push(sp);
                                }
                            }
                        }
                    }
                }
            }
        }
    }
}

fn family_three(v: &mut Vec<Spec>) {
    for (t, stride) in [(N, 1usize), (BI, 1), (R, 3), (Q, 11)] {
        for target in 0..64usize {
            let srcs: Vec<usize> = match t {
                N => knight_from(target),
                BI => (0..64).filter(|&s| aligned(s, target) == 2).collect(),
                R => (0..64).filter(|&s| aligned(s, target) == 1).collect(),
                _ => (0..64).filter(|&s| aligned(s, target) != 0).collect(),
            };
            let mut idx = 0usize;
            for i in 0..srcs.len() {
                for j in (i + 1)..srcs.len() {
                    for l in (j + 1)..srcs.len() {
                        idx += 1;
                        if idx % stride != 0 {
                            continue;
                        }
                        let stm = ((target + idx) % 2) as u8;
                        let (own, opp) = if stm == 0 { (W, B) } else { (B, W) };
                        let mut sp = Spec::new(stm, 4);
                        sp.auto_king = 3;
                        sp.put(srcs[i], t + own);
                        sp.put(srcs[j], t + own);
                        sp.put(srcs[l], t + own);
                        if idx % 3 == 0 && (8..56).contains(&target) {
                            sp.put(target, P + opp);
                        } else if idx % 3 == 1 {
                            sp.put(target, N + opp);
                        }
                        v.push(sp);
                    }
                }
            }
        }
    }
}

/// Family 5 (added after seeded change C06-a): the side to move can capture a home-corner rook whose owner still
/// holds the castling right, with every piece type including the king (and a promoting pawn).
fn family_corner(v: &mut Vec<Spec>) {
    for owner in 0..2u8 {
        let (oc, ac) = if owner == 0 { (W, B) } else { (B, W) };
        let back = if owner == 0 { 0usize } else { 56 };
        for rr in 1..4u8 {
            for corner_file in [0usize, 7] {
                let bit = if corner_file == 0 { 1 } else { 2 };
                if rr & bit == 0 {
                    continue;
                }
                let corner = back + corner_file;
                let mut base = Spec::new(1 - owner, 5);
                if owner == 0 { base.wr = rr } else { base.br = rr }
                base.put(back + 4, K + oc);
                if rr & 1 != 0 { base.put(back, R + oc); }
                if rr & 2 != 0 { base.put(back + 7, R + oc); }
                for t in [K, Q, R, BI, N, P] {
                    for s in 0..64usize {
                        if s == corner { continue; }
                        let al = aligned(s, corner);
                        let ok = match t {
                            x if x == K => cheb(s, corner) == 1,
                            x if x == N => knight_from(corner).contains(&s),
                            x if x == R => al == 1,
                            x if x == BI => al == 2,
                            x if x == Q => al != 0,
                            _ => {
                                // pawn one rank in front of the owner's back rank, on the neighbouring file
                                let (r, f) = rf(s);
                                let pr = if owner == 0 { 1 } else { 6 };
                                r == pr && (f - corner_file as i32).abs() == 1
                            }
                        };
                        if !ok { continue; }
                        let mut sp = base;
                        if t == K {
                            sp.auto_king = 0;
                        } else {
                            sp.auto_king = if owner == 0 { 2 } else { 1 };
                        }
                        if sp.put(s, t + ac) {
                            v.push(sp);
                        }
                    }
                }
            }
        }
    }
}

/// Family 6 (third wave): castling that gives check or mate — the enemy king stands on the file the rook arrives on
/// (f for O-O, d for O-O-O), optionally hemmed in by its own men.
fn family_castle_check(v: &mut Vec<Spec>) {
    for c in 0..2u8 {
        let (own, opp) = if c == 0 { (W, B) } else { (B, W) };
        let back = if c == 0 { 0usize } else { 56 };
        for (rr, rook_file, arrive_file) in [(2u8, 7usize, 5usize), (1u8, 0usize, 3usize)] {
            for kr in 0..8usize {
                let ks = kr * 8 + arrive_file;
                if cheb(ks, back + 4) <= 1 || cheb(ks, back + arrive_file) <= 1 || cheb(ks, back + if rr == 2 { 6 } else { 2 }) <= 1 {
                    continue;
                }
                for hem in 0..4u8 {
                    let mut sp = Spec::new(c, 6);
                    if c == 0 { sp.wr = rr } else { sp.br = rr }
                    sp.put(back + 4, K + own);
                    sp.put(back + rook_file, R + own);
                    if !sp.put(ks, K + opp) { continue; }
                    // hem the enemy king in with its own men on the neighbouring files (mate patterns)
                    if hem & 1 != 0 {
                        for df in [-1i32, 1] {
                            let f = arrive_file as i32 + df;
                            if (0..8).contains(&f) { sp.put(kr * 8 + f as usize, R + opp); }
                        }
                    }
                    if hem & 2 != 0 {
                        let r2 = if c == 0 { kr as i32 - 1 } else { kr as i32 + 1 };
                        if (0..8).contains(&r2) {
                            for df in [-1i32, 1] {
                                let f = arrive_file as i32 + df;
                                if (0..8).contains(&f) { sp.put(r2 as usize * 8 + f as usize, P + opp); }
                            }
                        }
                    }
                    v.push(sp);
                }
            }
        }
    }
}

/// Family 7 (third wave): an en-passant capture that DISCOVERS a check on the enemy king — own slider, the captured
/// pawn (or the capturing pawn) and the enemy king on one line.
fn family_ep_discover_enemy(v: &mut Vec<Spec>) {
    for stm in 0..2u8 {
        let (own, opp) = if stm == 0 { (W, B) } else { (B, W) };
        let (pr, er, or) = if stm == 0 { (4usize, 5usize, 6usize) } else { (3, 2, 1) };
        for f in 0..8usize {
            for gf in [f.wrapping_sub(1), f + 1] {
                if gf >= 8 { continue; }
                let (own_p, opp_p, ep, origin) = (pr * 8 + f, pr * 8 + gf, er * 8 + gf, or * 8 + gf);
                for k in 0..64 {
                    if [own_p, opp_p, ep, origin].contains(&k) { continue; }
                    for s in 0..64 {
                        if [own_p, opp_p, ep, origin, k].contains(&s) { continue; }
                        let al = aligned(k, s);
                        if al == 0 { continue; }
                        let bt = between(k, s);
                        if !bt.contains(&own_p) && !bt.contains(&opp_p) { continue; }
                        let sliders: [u8; 2] = if al == 1 { [R, Q] } else { [BI, Q] };
                        for sl in sliders {
                            let mut sp = Spec::new(stm, 7);
                            sp.auto_king = if stm == 0 { 1 } else { 2 };
                            sp.ep = ep as i8;
                            sp.put(k, K + opp);
                            sp.put(own_p, P + own);
                            sp.put(opp_p, P + opp);
                            sp.put(s, sl + own);
                            v.push(sp);
                        }
                    }
                }
            }
        }
    }
}

pub fn g3_specs() -> Vec<Spec> {
    let mut v = Vec::new();
    family_pins_checks(&mut v);
    family_castling(&mut v);
    family_ep(&mut v);
    family_promo(&mut v);
    family_three(&mut v);
    family_corner(&mut v);
    family_castle_check(&mut v);
    family_ep_discover_enemy(&mut v);
    family_special_with_ep(&mut v);
    v
}

const KING_SPOTS: [usize; 16] = [63, 56, 7, 0, 58, 61, 2, 5, 47, 40, 23, 16, 59, 3, 31, 24];

/// Builds a spec through `ChessBoard::setup`.  Automatic kings try the squares of KING_SPOTS in
/// order (free, not adjacent to the other king) and keep the first placement `setup` accepts
/// (at most 24 setups per spec).
pub fn build_spec(sp: &Spec) -> Option<ChessBoard> {
    let stm = if sp.stm == 0 { Color::White } else { Color::Black };
    let wr = CastlingRights::from_index(sp.wr as usize).ok()?;
    let br = CastlingRights::from_index(sp.br as usize).ok()?;
    let ep = if sp.ep < 0 { None } else { Some(sq(sp.ep as usize)) };
    let base: Vec<(usize, u8)> = sp.pcs[..sp.n as usize].iter().map(|p| (p.0 as usize, p.1)).collect();
    let try_build = |extra: &[(usize, u8)]| -> Option<ChessBoard> {
        let pcs: Vec<(Square, Piece)> = base
            .iter()
            .chain(extra.iter())
            .map(|&(s, c)| {
                (sq(s), Piece(pt((c % 6) as usize), if c < 6 { Color::White } else { Color::Black }))
            })
            .collect();
        catch(|| ChessBoard::setup(&pcs, stm, wr, br, ep, 0, 1).ok()).flatten()
    };
    let free = |s: usize, others: &[(usize, u8)]| {
        !base.iter().chain(others.iter()).any(|p| p.0 == s)
            && !base.iter().chain(others.iter()).any(|p| p.1 % 6 == K && cheb(p.0, s) <= 1)
    };
    let mut tries = 0;
    match sp.auto_king {
        0 => try_build(&[]),
        1 | 2 => {
            let code = if sp.auto_king == 1 { K + W } else { K + B };
            for &s in KING_SPOTS.iter() {
                if !free(s, &[]) {
                    continue;
                }
                tries += 1;
                if tries > 24 {
                    break;
                }
                if let Some(b) = try_build(&[(s, code)]) {
                    return Some(b);
                }
            }
            None
        }
        _ => {
            for &a in KING_SPOTS.iter() {
                if !free(a, &[]) {
                    continue;
                }
                for &b in KING_SPOTS.iter() {
                    if a == b || !free(b, &[(a, K + W)]) {
                        continue;
                    }
                    tries += 1;
                    if tries > 24 {
                        return None;
                    }
                    if let Some(x) = try_build(&[(a, K + W), (b, K + B)]) {
                        return Some(x);
                    }
                }
            }
            None
        }
    }
}

/// G3: the enumerated family list is shuffled with the seeded generator and walked until
/// `budget` positions were accepted by `setup` (both tiers sample; the thorough budgets are
/// simply larger).
pub fn g3(budget: usize, rng: &mut Rng, out: &mut Out, f: &mut dyn FnMut(&mut Out, &Visit, &mut Rng)) {
    if budget == 0 {
        return;
    }
    let specs = g3_specs();
    out.stats.add("gen.g3_specs_enumerated", specs.len() as u64);
    // every family is shuffled separately and the families are interleaved round robin, so the
    // small families (ep, three-same) get the same share as the big ones
    let mut per_fam: Vec<Vec<u32>> = vec![Vec::new(); FAMILY_NAMES.len()];
    for (i, sp) in specs.iter().enumerate() {
        per_fam[sp.fam as usize].push(i as u32);
    }
    for (fi, l) in per_fam.iter_mut().enumerate() {
        out.stats.add(&format!("gen.g3_specs_{}", FAMILY_NAMES[fi]), l.len() as u64);
        rng.shuffle(l);
    }
    let longest = per_fam.iter().map(|l| l.len()).max().unwrap_or(0);
    let mut order: Vec<u32> = Vec::with_capacity(specs.len());
    for j in 0..longest {
        for l in &per_fam {
            if j < l.len() {
                order.push(l[j]);
            }
        }
    }
    let mut kept = 0usize;
    for &i in &order {
        if kept >= budget || !out.room() {
            break;
        }
        let sp = &specs[i as usize];
        out.stats.inc("gen.g3_candidates");
        match build_spec(sp) {
            Some(b) => {
                kept += 1;
                out.stats.inc(&format!("gen.g3_kept_{}", FAMILY_NAMES[sp.fam as usize]));
                note_position(&mut out.stats, &b, 3);
                f(out, &Visit { board: &b, played: None, gen: 3 }, rng);
            }
            None => out.stats.inc(&format!("gen.g3_rejected_{}", FAMILY_NAMES[sp.fam as usize])),
        }
    }
}

/// All three sources, budgets = [g1, g2, g3].
pub fn all_sources(
    budgets: [usize; 3],
    seed: u64,
    out: &mut Out,
    f: &mut dyn FnMut(&mut Out, &Visit, &mut Rng),
) {
    let seeds = load_seeds(&mut out.stats);
    let mut r1 = Rng::new(seed, 101);
    g1(&seeds, budgets[0], &mut r1, out, f);
    let mut r2 = Rng::new(seed, 102);
    g2(budgets[1], &mut r2, out, f);
    let mut r3 = Rng::new(seed, 103);
    g3(budgets[2], &mut r3, out, f);
    // G7 rides on the G3 budget (a quarter of it, at least 10)
    let mut r7 = Rng::new(seed, 107);
    g7((budgets[2] / 4).max(10), &mut r7, out, f);
    // G8 (motif composer) as well
    let mut r8 = Rng::new(seed, 108);
    g8((budgets[2] / 4).max(10), &mut r8, out, f);
}
