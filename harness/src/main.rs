//! `harness <group> <tier> <seed> <outdir>` — drives the real library and writes
//! keys.txt / ops.txt / impl.txt / gen.json into <outdir> (see /verif/PROTOCOL.md).
//! Nothing is ever written to stdout (it is redirected to /dev/null because the library prints
//! there); diagnostics go to stderr.  Exit code 0 on success, 2 on usage / IO errors.

mod gen;
mod groups;
mod groups2;
mod groups3;
mod obs;
mod obs2;
mod strings;
mod util;

use std::fs;
use std::io::{BufWriter, Write};
use std::path::{Path, PathBuf};
use std::time::Instant;

use util::*;

// ---------------------------------------------------------------------------------------------
// Budgets (tunable).  Index 0 = quick, 1 = thorough.
// ---------------------------------------------------------------------------------------------

/// Hard cap on the size of ops.txt; generators stop emitting position-driven ops beyond it.
pub const MAX_OPS_BYTES: [u64; 2] = [40_000_000, 1_500_000_000];

/// Longest G1 playout (plies).
pub const PLAYOUT_MAX_PLIES: [usize; 2] = [120, 400];

/// Visited positions per generator (G1, G2, G3) for each position-driven group.
pub const POS_LEGAL: [[usize; 3]; 2] = [[24_000, 10_000, 16_000], [400_000, 150_000, 250_000]];
pub const POS_MOVES: [[usize; 3]; 2] = [[5_000, 2_000, 3_200], [30_000, 10_000, 15_000]];
pub const POS_UNIV: [[usize; 3]; 2] = [[60, 30, 110], [1_000, 400, 2_000]];
pub const POS_FEN: [[usize; 3]; 2] = [[3_000, 1_500, 1_500], [150_000, 60_000, 60_000]];
pub const POS_SAN: [[usize; 3]; 2] = [[5_000, 2_000, 3_000], [250_000, 80_000, 150_000]];
pub const POS_RENDER: [[usize; 3]; 2] = [[1_500, 700, 700], [60_000, 20_000, 20_000]];
pub const POS_FLIP: [[usize; 3]; 2] = [[4_000, 2_000, 2_000], [150_000, 60_000, 90_000]];
/// zobrist: played plies (G1 only) and transposition probes.
pub const ZOB_PLIES: [usize; 2] = [12_000, 600_000];
pub const ZOB_PROBES: [usize; 2] = [800, 40_000];
/// zobrist, second pass: positions per generator whose special moves are all emitted.
pub const ZOB_SPECIAL: [[usize; 3]; 2] = [[1_500, 2_500, 2_000], [60_000, 80_000, 60_000]];
/// moves group: random legal moves per position besides the played one (quick only).
pub const MOVES_QUICK_EXTRA: usize = 6;
pub const MOVES_ILLEGAL_PER_POS: usize = 2;
/// prims: random masks; pair stride.
pub const PRIMS_RANDOM_MASKS: [usize; 2] = [2_000, 200_000];
pub const PRIMS_PAIR_STRIDE: [usize; 2] = [7, 1];
/// fen group: positions whose single-defect corruptions are all emitted; random builder
/// contents; grammar strings; mutation strings; multi-byte splices.
pub const FEN_CORRUPT_POSITIONS: [usize; 2] = [120, 6_000];
pub const FEN_BUILDER_RANDOM: [usize; 2] = [2_000, 100_000];
pub const FEN_GRAMMAR: [usize; 2] = [3_000, 150_000];
pub const FEN_MUTATIONS: [usize; 2] = [4_000, 200_000];
pub const FEN_SPLICES: [usize; 2] = [1_000, 50_000];
/// parse group.
pub const PARSE_PMOVE_MAXLEN: [usize; 2] = [4, 5];
pub const PARSE_SMALL_MAXLEN: usize = 3;
pub const PARSE_MOVE_MUTATIONS: [usize; 2] = [20_000, 600_000];
pub const PARSE_PGN_GAMES: [usize; 2] = [12, 100];
pub const PARSE_PGN_MUTATIONS_PER_TEXT: [usize; 2] = [8, 12];
/// game group: random sessions, their length, exhaustive sequence length.
pub const GAME_RANDOM_SESSIONS: [usize; 2] = [250, 8_000];
pub const GAME_RANDOM_MAX_ACTIONS: [usize; 2] = [90, 260];
pub const GAME_EXHAUSTIVE_LEN: [usize; 2] = [3, 4];
pub const GAME_HIST_EVERY: usize = 5;
/// pgn group: base random games (each replayed once per ending variant), maximum length.
pub const PGN_BASE_GAMES: [usize; 2] = [20, 200];
pub const PGN_MAX_PLIES: usize = 300;

pub const SEEDS_FILE: &str = "/verif/harness/seeds.txt";
/// root of the library tree under test (`VERIF_REPO`, default `/repo`; the crate itself is linked at build time)
pub fn repo_root() -> String { std::env::var("VERIF_REPO").ok().filter(|s| !s.is_empty()).unwrap_or_else(|| "/repo".to_string()) }
pub fn examples_dir() -> String { format!("{}/examples/pgn_data", repo_root()) }

// ---------------------------------------------------------------------------------------------

/// Output files plus the measured counters.
pub struct Out {
    ops: BufWriter<fs::File>,
    imp: BufWriter<fs::File>,
    pub n_ops: u64,
    pub ops_bytes: u64,
    pub imp_bytes: u64,
    pub stats: Stats,
    pub tier: usize,
    io_error: Option<std::io::Error>,
}

impl Out {
    /// Writes one op line and its observation line.
    pub fn emit(&mut self, op: &str, obs: &str) {
        debug_assert!(!op.contains('\n') && !obs.contains('\n'));
        let kind = op.split(' ').next().unwrap_or("");
        self.stats.inc(&format!("ops.{kind}"));
        self.n_ops += 1;
        self.ops_bytes += op.len() as u64 + 1;
        self.imp_bytes += obs.len() as u64 + 1;
        let r = writeln!(self.ops, "{op}").and_then(|_| writeln!(self.imp, "{obs}"));
        if let Err(e) = r {
            if self.io_error.is_none() {
                self.io_error = Some(e);
            }
        }
    }

    /// True while the ops.txt size budget still has room.
    pub fn room(&self) -> bool { self.ops_bytes < MAX_OPS_BYTES[self.tier] }
}

fn usage() -> ! {
    eprintln!("usage: harness <group> <quick|thorough> <seed:u64> <outdir>");
    eprintln!("groups: {}", groups::GROUPS.join(" "));
    std::process::exit(2);
}

fn io_fail(what: &str, e: impl std::fmt::Display) -> ! {
    eprintln!("harness: {what}: {e}");
    std::process::exit(2);
}

#[cfg(unix)]
fn silence_stdout() {
    use std::os::unix::io::AsRawFd;
    extern "C" {
        fn dup2(oldfd: i32, newfd: i32) -> i32;
    }
    if let Ok(f) = fs::OpenOptions::new().write(true).open("/dev/null") {
        unsafe {
            dup2(f.as_raw_fd(), 1);
        }
    }
}

#[cfg(not(unix))]
fn silence_stdout() {}

fn main() {
    std::panic::set_hook(Box::new(|_| {}));
    silence_stdout();

    let args: Vec<String> = std::env::args().collect();
    if args.len() != 5 {
        usage();
    }
    let group = args[1].as_str();
    let tier = match args[2].as_str() {
        "quick" => 0,
        "thorough" => 1,
        _ => usage(),
    };
    let seed: u64 = match args[3].parse() {
        Ok(s) => s,
        Err(_) => usage(),
    };
    if !groups::GROUPS.contains(&group) {
        usage();
    }
    let outdir = PathBuf::from(&args[4]);
    if let Err(e) = fs::create_dir_all(&outdir) {
        io_fail("cannot create outdir", e);
    }
    let open = |name: &str| -> BufWriter<fs::File> {
        match fs::File::create(outdir.join(name)) {
            Ok(f) => BufWriter::with_capacity(1 << 20, f),
            Err(e) => io_fail(&format!("cannot create {name}"), e),
        }
    };

    let start = Instant::now();
    let mut out = Out {
        ops: open("ops.txt"),
        imp: open("impl.txt"),
        n_ops: 0,
        ops_bytes: 0,
        imp_bytes: 0,
        stats: Stats::default(),
        tier,
        io_error: None,
    };

    // keys.txt is written for every group.
    let keys = obs::obs_zob();
    if let Err(e) = fs::write(outdir.join("keys.txt"), format!("{keys}\n")) {
        io_fail("cannot write keys.txt", e);
    }

    if let Err(msg) = groups::run(group, tier, seed, &mut out) {
        eprintln!("harness: {msg}");
        std::process::exit(2);
    }

    if let Err(e) = out.ops.flush().and_then(|_| out.imp.flush()) {
        io_fail("flush", e);
    }
    if let Some(e) = out.io_error.take() {
        io_fail("write", e);
    }
    let secs = start.elapsed().as_secs_f64();
    write_gen_json(&outdir, group, &args[2], seed, &out, secs);
    eprintln!(
        "harness: group={} tier={} seed={} ops={} ops_bytes={} impl_bytes={} seconds={:.2}",
        group, args[2], seed, out.n_ops, out.ops_bytes, out.imp_bytes, secs
    );
}

/// gen.json: run header, then the counters grouped by the prefix of their name.  `seconds` is
/// deliberately NOT part of the file (it would break byte-identical reruns); it is on stderr.
fn write_gen_json(outdir: &Path, group: &str, tier: &str, seed: u64, out: &Out, _secs: f64) {
    let head = [
        ("group", format!("\"{}\"", json_escape(group))),
        ("tier", format!("\"{}\"", json_escape(tier))),
        ("seed", seed.to_string()),
        ("ops_total", out.n_ops.to_string()),
        ("ops_bytes", out.ops_bytes.to_string()),
        ("impl_bytes", out.imp_bytes.to_string()),
    ];
    let text = stats_json(&head, &out.stats);
    if let Err(e) = fs::write(outdir.join("gen.json"), text) {
        io_fail("cannot write gen.json", e);
    }
}
