//! Small self-contained helpers: PRNG, hex, panic capture, statistics, JSON output.

use std::collections::BTreeMap;
use std::panic::{catch_unwind, AssertUnwindSafe};

/// Runs `f` under `catch_unwind`; `None` means the library panicked.
#[inline]
pub fn catch<T>(f: impl FnOnce() -> T) -> Option<T> { catch_unwind(AssertUnwindSafe(f)).ok() }

/// splitmix64 step (used for seeding and for deriving sub-streams).
#[inline]
pub fn splitmix64(x: &mut u64) -> u64 {
    *x = x.wrapping_add(0x9E37_79B9_7F4A_7C15);
    let mut z = *x;
    z = (z ^ (z >> 30)).wrapping_mul(0xBF58_476D_1CE4_E5B9);
    z = (z ^ (z >> 27)).wrapping_mul(0x94D0_49BB_1331_11EB);
    z ^ (z >> 31)
}

/// xorshift64* generator seeded through splitmix64.
#[derive(Clone)]
pub struct Rng(u64);

impl Rng {
    pub fn new(seed: u64, stream: u64) -> Rng {
        let mut s = seed ^ stream.wrapping_mul(0xD6E8_FEB8_6659_FD93);
        let mut v = splitmix64(&mut s);
        v ^= splitmix64(&mut s).rotate_left(17);
        if v == 0 {
            v = 0x1234_5678_9ABC_DEF1;
        }
        Rng(v)
    }

    #[inline]
    pub fn next_u64(&mut self) -> u64 {
        let mut x = self.0;
        x ^= x >> 12;
        x ^= x << 25;
        x ^= x >> 27;
        self.0 = x;
        x.wrapping_mul(0x2545_F491_4F6C_DD1D)
    }

    /// Uniform value in `0..n` (`n > 0`); the tiny modulo bias is irrelevant here.
    #[inline]
    pub fn below(&mut self, n: usize) -> usize {
        if n <= 1 {
            return 0;
        }
        ((self.next_u64() >> 11) % (n as u64)) as usize
    }

    /// Inclusive range.
    #[inline]
    pub fn range(&mut self, lo: usize, hi: usize) -> usize { lo + self.below(hi - lo + 1) }

    /// True with probability `pct` %.
    #[inline]
    pub fn pct(&mut self, pct: usize) -> bool { self.below(100) < pct }

    pub fn pick<'a, T>(&mut self, xs: &'a [T]) -> &'a T { &xs[self.below(xs.len())] }

    pub fn shuffle<T>(&mut self, xs: &mut [T]) {
        for i in (1..xs.len()).rev() {
            let j = self.below(i + 1);
            xs.swap(i, j);
        }
    }
}

const HEX: &[u8; 16] = b"0123456789abcdef";

/// Lowercase hex of the UTF-8 bytes; the empty string is `-`.
pub fn hex(s: &str) -> String { hex_bytes(s.as_bytes()) }

pub fn hex_bytes(b: &[u8]) -> String {
    if b.is_empty() {
        return "-".to_string();
    }
    let mut out = String::with_capacity(b.len() * 2);
    for &c in b {
        out.push(HEX[(c >> 4) as usize] as char);
        out.push(HEX[(c & 15) as usize] as char);
    }
    out
}

/// Inverse of `hex_bytes`; `None` on malformed input.
pub fn unhex(s: &str) -> Option<Vec<u8>> {
    if s == "-" {
        return Some(Vec::new());
    }
    let b = s.as_bytes();
    if b.len() % 2 != 0 {
        return None;
    }
    let val = |c: u8| -> Option<u8> {
        match c {
            b'0'..=b'9' => Some(c - b'0'),
            b'a'..=b'f' => Some(c - b'a' + 10),
            b'A'..=b'F' => Some(c - b'A' + 10),
            _ => None,
        }
    };
    let mut out = Vec::with_capacity(b.len() / 2);
    for i in (0..b.len()).step_by(2) {
        out.push(val(b[i])? << 4 | val(b[i + 1])?);
    }
    Some(out)
}

/// `u64` mask as lowercase hex without leading zeros.
#[inline]
pub fn hx(v: u64) -> String { format!("{v:x}") }

/// Removes every `ESC [ ... m` sequence.
pub fn strip_ansi(s: &str) -> String {
    let cs: Vec<char> = s.chars().collect();
    let mut out = String::with_capacity(s.len());
    let mut i = 0;
    while i < cs.len() {
        if cs[i] == '\u{1b}' && i + 1 < cs.len() && cs[i + 1] == '[' {
            let mut j = i + 2;
            while j < cs.len() && cs[j] != 'm' {
                j += 1;
            }
            if j < cs.len() {
                i = j + 1;
                continue;
            }
        }
        out.push(cs[i]);
        i += 1;
    }
    out
}

/// Measured counters, written to gen.json.
#[derive(Default)]
pub struct Stats {
    pub c: BTreeMap<String, u64>,
}

impl Stats {
    #[inline]
    pub fn inc(&mut self, k: &str) { self.add(k, 1); }

    pub fn add(&mut self, k: &str, n: u64) {
        if let Some(v) = self.c.get_mut(k) {
            *v += n;
        } else {
            self.c.insert(k.to_string(), n);
        }
    }

    pub fn get(&self, k: &str) -> u64 { self.c.get(k).copied().unwrap_or(0) }
}

pub fn json_escape(s: &str) -> String {
    let mut o = String::new();
    for ch in s.chars() {
        match ch {
            '"' => o.push_str("\\\""),
            '\\' => o.push_str("\\\\"),
            '\n' => o.push_str("\\n"),
            '\r' => o.push_str("\\r"),
            '\t' => o.push_str("\\t"),
            c if (c as u32) < 0x20 => o.push_str(&format!("\\u{:04x}", c as u32)),
            c => o.push(c),
        }
    }
    o
}

/// Renders the flat counter map as a two-level JSON object: the part of a key before the
/// first '.' is the section name, the rest the counter name.
pub fn stats_json(head: &[(&str, String)], stats: &Stats) -> String {
    let mut sections: BTreeMap<String, Vec<(String, u64)>> = BTreeMap::new();
    for (k, v) in &stats.c {
        let (sec, name) = match k.find('.') {
            Some(i) => (&k[..i], &k[i + 1..]),
            None => ("misc", &k[..]),
        };
        sections.entry(sec.to_string()).or_default().push((name.to_string(), *v));
    }
    let mut o = String::from("{\n");
    for (k, v) in head {
        o.push_str(&format!("  \"{}\": {},\n", json_escape(k), v));
    }
    let n = sections.len();
    for (i, (sec, items)) in sections.iter().enumerate() {
        o.push_str(&format!("  \"{}\": {{", json_escape(sec)));
        for (j, (name, v)) in items.iter().enumerate() {
            if j > 0 {
                o.push_str(", ");
            }
            o.push_str(&format!("\"{}\": {}", json_escape(name), v));
        }
        o.push('}');
        if i + 1 < n {
            o.push(',');
        }
        o.push('\n');
    }
    o.push_str("}\n");
    o
}
