//! Table / primitive ops, the metamorphic `flip` op and the game-session ops.

use crate::obs::*;
use crate::util::*;
use libchess::errors::LibChessError;
use libchess::move_masks::*;
use libchess::*;
use std::str::FromStr;

pub const TBL_NAMES: [&str; 13] = [
    "rays", "knight", "king", "bishop", "rook", "queen", "pawnpush.w", "pawnpush.b", "pawndbl.w",
    "pawndbl.b", "pawncap.w", "pawncap.b", "between",
];

/// indices far outside every range, around the powers of two where a narrowing cast (`as u8`, `as u16`, `as u32`) would wrap
/// (fifth wave, C18-e)
pub const FAR_IDX: [usize; 17] = [255, 256, 257, 263, 264, 511, 512, 519, 65535, 65536, 65543, 4294967295, 4294967296, 4294967303,
    usize::MAX - 255, usize::MAX - 248, usize::MAX];
pub const PRIM_KINDS: [&str; 9] = ["square", "file", "rank", "color", "piece", "cr", "bbfr", "offsets", "misc"];

pub fn obs_tbl(name: &str) -> String {
    let v = g(|| {
        let per_sq = |f: &dyn Fn(Square) -> BitBoard| -> String {
            (0..64).map(|i| hx(f(sq(i)).bits())).collect::<Vec<_>>().join(",")
        };
        match name {
            "rays" => {
                let mut v = Vec::with_capacity(512);
                for s in 0..64 {
                    let r = RAYS_TABLE.get(sq(s));
                    for i in 0..8 {
                        v.push(hx(r[i].bits()));
                    }
                }
                v.join(",")
            }
            "knight" => per_sq(&|s| KNIGHT_TABLE.get_moves(s)),
            "king" => per_sq(&|s| KING_TABLE.get_moves(s)),
            "bishop" => per_sq(&|s| BISHOP_TABLE.get_moves(s)),
            "rook" => per_sq(&|s| ROOK_TABLE.get_moves(s)),
            "queen" => per_sq(&|s| QUEEN_TABLE.get_moves(s)),
            "pawnpush.w" => per_sq(&|s| PAWN_TABLE.get_moves(s, Color::White)),
            "pawnpush.b" => per_sq(&|s| PAWN_TABLE.get_moves(s, Color::Black)),
            "pawndbl.w" => per_sq(&|s| PAWN_TABLE.get_double_moves(s, Color::White)),
            "pawndbl.b" => per_sq(&|s| PAWN_TABLE.get_double_moves(s, Color::Black)),
            "pawncap.w" => per_sq(&|s| PAWN_TABLE.get_captures(s, Color::White)),
            "pawncap.b" => per_sq(&|s| PAWN_TABLE.get_captures(s, Color::Black)),
            "between" => {
                let mut v = Vec::with_capacity(4096);
                for a in 0..64 {
                    for b in 0..64 {
                        v.push(match BETWEEN_TABLE.get(sq(a), sq(b)) {
                            Some(m) => hx(m.bits()),
                            None => "x".to_string(),
                        });
                    }
                }
                v.join(",")
            }
            _ => "badname".to_string(),
        }
    });
    format!("v={v}")
}

fn ri<T>(r: Result<T, LibChessError>, f: impl Fn(T) -> usize) -> String {
    match r {
        Ok(x) => f(x).to_string(),
        Err(_) => "!".to_string(),
    }
}

/// Records for out-of-range indices are the two-field record `i:!` (nothing else can be
/// computed without a value).  A panic anywhere inside a kind gives `v=panic`.
pub fn obs_prim(kind: &str) -> String {
    let v = g(|| match kind {
        "square" => (0..=255u32)
            .map(|i| match Square::new(i as u8) {
                Err(_) => format!("{i}:!"),
                Ok(s) => {
                    let text = format!("{s}");
                    format!(
                        "{}:{}:{}:{}:{}:{}:{}:{}:{}:{}:{}",
                        i,
                        text,
                        ri(Square::from_str(&text), |x| x.to_index()),
                        s.get_rank().to_index(),
                        s.get_file().to_index(),
                        ri(s.up(), |x| x.to_index()),
                        ri(s.down(), |x| x.to_index()),
                        ri(s.left(), |x| x.to_index()),
                        ri(s.right(), |x| x.to_index()),
                        s.is_light() as u8,
                        s.is_dark() as u8
                    )
                }
            })
            .collect::<Vec<_>>()
            .join(";"),
        "file" => (0..=9usize).chain(FAR_IDX)
            .map(|i| match File::from_index(i) {
                Err(_) => format!("{i}:!"),
                Ok(f) => {
                    let text = format!("{f}");
                    format!(
                        "{}:{}:{}:{}:{}",
                        i,
                        text,
                        ri(File::from_str(&text), |x| x.to_index()),
                        ri(f.left(), |x| x.to_index()),
                        ri(f.right(), |x| x.to_index())
                    )
                }
            })
            .collect::<Vec<_>>()
            .join(";"),
        "rank" => (0..=9usize).chain(FAR_IDX)
            .map(|i| match Rank::from_index(i) {
                Err(_) => format!("{i}:!"),
                Ok(r) => {
                    let text = format!("{r}");
                    format!(
                        "{}:{}:{}:{}:{}",
                        i,
                        text,
                        ri(Rank::from_str(&text), |x| x.to_index()),
                        ri(r.down(), |x| x.to_index()),
                        ri(r.up(), |x| x.to_index())
                    )
                }
            })
            .collect::<Vec<_>>()
            .join(";"),
        "color" => (0..=3usize).chain(FAR_IDX)
            .map(|i| match Color::from_index(i) {
                Err(_) => format!("{i}:!"),
                Ok(c) => format!(
                    "{}:{}:{}:{}:{}",
                    i,
                    c,
                    (!c).to_index(),
                    c.get_back_rank().to_index(),
                    c.get_promotion_rank().to_index()
                ),
            })
            .collect::<Vec<_>>()
            .join(";"),
        "piece" => (0..=7usize).chain(FAR_IDX)
            .map(|i| match PieceType::from_index(i) {
                Err(_) => format!("{i}:!"),
                Ok(p) => {
                    let text = format!("{p}");
                    format!(
                        "{}:{}:{}:{}",
                        i,
                        text,
                        ri(PieceType::from_str(&text), |x| x.to_index()),
                        ri(PieceType::from_str(&text.to_lowercase()), |x| x.to_index())
                    )
                }
            })
            .collect::<Vec<_>>()
            .join(";"),
        "cr" => {
            let mut recs: Vec<String> = (0..=5usize).chain(FAR_IDX)
                .map(|i| match CastlingRights::from_index(i) {
                    Err(_) => format!("{i}:!"),
                    Ok(r) => {
                        let d = format!("{r}");
                        format!(
                            "{}:{}:{}:{}:{}:{}",
                            i,
                            r.to_index(),
                            if d.is_empty() { "-".to_string() } else { d },
                            r.has_kingside() as u8,
                            r.has_queenside() as u8,
                            r.has_any() as u8
                        )
                    }
                })
                .collect();
            for a in 0..4 {
                for b in 0..4 {
                    let (x, y) =
                        (CastlingRights::from_index(a).unwrap(), CastlingRights::from_index(b).unwrap());
                    // `+=` / `-=` must agree with `+` / `-`
                    let (mut xa, mut xs) = (x, x);
                    xa += y;
                    xs -= y;
                    recs.push(format!("A{}{}={}{}", a, b, (x + y).to_index(), if xa == x + y { "" } else { "!" }));
                    recs.push(format!("S{}{}={}{}", a, b, (x - y).to_index(), if xs == x - y { "" } else { "!" }));
                }
            }
            recs.join(";")
        }
        "misc" => {
            // constants of the public API outside the other kinds: the default builder (= standard start), its cell
            // array, the colour and piece-type iterators, the default game's FEN
            let bbdef = format!("{}", BoardBuilder::default()).replace(' ', "_");
            let cells = BoardBuilder::default().get_pieces();
            let gp: String = (0..64).map(|i| cells[i].map_or('.', piece_char)).collect();
            let ci: String = Color::iter().map(color_char).collect();
            let pi: String = PieceType::iter().map(type_char).collect();
            let gdef = Game::default().as_fen().replace(' ', "_");
            format!("{bbdef}:{gp}:{ci}:{pi}:{gdef}")
        }
        "bbfr" => {
            let mut v = Vec::new();
            for f in 0..8 {
                v.push(hx(BitBoard::from_file(File::from_index(f).unwrap()).bits()));
            }
            for r in 0..8 {
                v.push(hx(BitBoard::from_rank(Rank::from_index(r).unwrap()).bits()));
            }
            v.join(":")
        }
        "offsets" => {
            let mut v = Vec::with_capacity(4096);
            for a in 0..64 {
                for b in 0..64 {
                    let (dr, df) = sq(a).offsets_from(sq(b));
                    v.push(format!("{dr},{df}"));
                }
            }
            v.join(";")
        }
        _ => "badkind".to_string(),
    });
    format!("v={v}")
}

// ---------------------------------------------------------------------------------------------
// flip
// ---------------------------------------------------------------------------------------------

#[derive(Clone, Copy, PartialEq)]
enum Mirror {
    /// ranks mirrored, colours / side / rights swapped
    Colour,
    /// files mirrored, nothing swapped (only used when nobody holds a right)
    File,
}

fn msq(s: Square, k: Mirror) -> Square {
    match k {
        Mirror::Colour => sq(s.to_index() ^ 56),
        Mirror::File => sq(s.to_index() ^ 7),
    }
}

fn mmask(v: u64, k: Mirror) -> u64 {
    match k {
        Mirror::Colour => v.swap_bytes(),
        Mirror::File => {
            let mut o = 0u64;
            for r in 0..8 {
                let byte = (v >> (8 * r)) as u8;
                o |= (byte.reverse_bits() as u64) << (8 * r);
            }
            o
        }
    }
}

fn mcol(c: Color, k: Mirror) -> Color {
    match k {
        Mirror::Colour => !c,
        Mirror::File => c,
    }
}

fn mmove(m: &BoardMove, k: Mirror) -> BoardMove {
    match m {
        BoardMove::MovePiece(p) => BoardMove::MovePiece(
            PieceMove::new(
                p.get_piece_type(),
                msq(p.get_source_square(), k),
                msq(p.get_destination_square(), k),
                p.get_promotion(),
            )
            .unwrap(),
        ),
        // the file mirror is only applied to positions without rights: no castling move exists
        other => *other,
    }
}

fn mstatus(s: BoardStatus, k: Mirror) -> BoardStatus {
    match s {
        BoardStatus::CheckMated(c) => BoardStatus::CheckMated(mcol(c, k)),
        o => o,
    }
}

fn mirror_board(b: &ChessBoard, k: Mirror) -> Option<ChessBoard> {
    let pcs: Vec<(Square, Piece)> =
        piece_list(b).into_iter().map(|(s, p)| (msq(s, k), Piece(p.0, mcol(p.1, k)))).collect();
    let (wr, br) = match k {
        Mirror::Colour => (b.get_castle_rights(Color::Black), b.get_castle_rights(Color::White)),
        Mirror::File => (b.get_castle_rights(Color::White), b.get_castle_rights(Color::Black)),
    };
    ChessBoard::setup(
        &pcs,
        mcol(b.get_side_to_move(), k),
        wr,
        br,
        b.get_en_passant().map(|s| msq(s, k)),
        b.get_moves_since_capture_or_pawn_move(),
        b.get_move_number(),
    )
    .ok()
}

/// Placement / side / rights / ep / clocks of `x` equal the mirror image of those of `y`.
/// Clocks: the half-move clocks must be equal.  The full-move number cannot be a plain mirror
/// image under the colour flip (it advances after Black's move only), so there the two
/// increments `x.full - x0.full` and `y.full - y0.full` must add up to exactly 1; under the file
/// mirror the numbers must be equal.
fn succ_mirrors(x: &ChessBoard, y: &ChessBoard, x0: &ChessBoard, y0: &ChessBoard, k: Mirror) -> bool {
    for i in 0..64 {
        let a = x.get_piece_on(sq(i));
        let b = y.get_piece_on(msq(sq(i), k)).map(|p| Piece(p.0, mcol(p.1, k)));
        if a != b {
            return false;
        }
    }
    let rights_ok = match k {
        Mirror::Colour => {
            x.get_castle_rights(Color::White) == y.get_castle_rights(Color::Black)
                && x.get_castle_rights(Color::Black) == y.get_castle_rights(Color::White)
        }
        Mirror::File => {
            x.get_castle_rights(Color::White) == y.get_castle_rights(Color::White)
                && x.get_castle_rights(Color::Black) == y.get_castle_rights(Color::Black)
        }
    };
    let full_ok = match k {
        Mirror::Colour => {
            (x.get_move_number() as i128 - x0.get_move_number() as i128)
                + (y.get_move_number() as i128 - y0.get_move_number() as i128)
                == 1
        }
        Mirror::File => x.get_move_number() == y.get_move_number(),
    };
    rights_ok
        && x.get_side_to_move() == mcol(y.get_side_to_move(), k)
        && x.get_en_passant() == y.get_en_passant().map(|s| msq(s, k))
        && x.get_moves_since_capture_or_pawn_move() == y.get_moves_since_capture_or_pawn_move()
        && full_ok
}

/// First differing item between `b` and its mirror image, `None` when everything matches.
/// Item names: `setup`, `legal`, `castle`, `chk`, `pin`, `status`, `succ:<move>`.
fn mirror_diff(b: &ChessBoard, k: Mirror) -> Option<String> {
    let fb = match mirror_board(b, k) {
        Some(x) => x,
        None => return Some("setup".to_string()),
    };
    let lm = b.get_legal_moves();
    let mut a: Vec<String> = lm.iter().map(|m| format!("{}", mmove(m, k))).collect();
    let mut c: Vec<String> = fb.get_legal_moves().iter().map(|m| format!("{m}")).collect();
    a.sort();
    c.sort();
    if a != c {
        return Some("legal".to_string());
    }
    if b.castling_is_available_on_board(None) != fb.castling_is_available_on_board(None) {
        return Some("castle".to_string());
    }
    if mmask(b.get_check_mask().bits(), k) != fb.get_check_mask().bits() {
        return Some("chk".to_string());
    }
    if mmask(b.get_pin_mask().bits(), k) != fb.get_pin_mask().bits() {
        return Some("pin".to_string());
    }
    if mstatus(b.get_status(), k) != fb.get_status() || b.is_terminal() != fb.is_terminal() {
        return Some("status".to_string());
    }
    let mut sorted = lm.clone();
    sorted.sort_by_key(|m| format!("{m}"));
    for m in &sorted {
        let x = b.make_move(m);
        let y = fb.make_move(&mmove(m, k));
        match (x, y) {
            (Ok(x), Ok(y)) => {
                if !succ_mirrors(&x, &y, b, &fb, k) {
                    return Some(format!("succ:{m}"));
                }
            }
            _ => return Some(format!("succ:{m}")),
        }
    }
    None
}

/// `what` names the first differing item of the colour flip, or (prefixed `h:`) of the file
/// mirror when the colour flip matched; a panic inside a comparison is the item `panic`.
pub fn obs_flip(b: &ChessBoard) -> String {
    let v = catch(|| mirror_diff(b, Mirror::Colour)).unwrap_or(Some("panic".to_string()));
    let no_rights = catch(|| {
        !b.get_castle_rights(Color::White).has_any() && !b.get_castle_rights(Color::Black).has_any()
    })
    .unwrap_or(false);
    let h = if no_rights {
        Some(catch(|| mirror_diff(b, Mirror::File)).unwrap_or(Some("panic".to_string())))
    } else {
        None
    };
    let what = match (&v, &h) {
        (Some(w), _) => w.clone(),
        (None, Some(Some(w))) => format!("h:{w}"),
        _ => "-".to_string(),
    };
    format!(
        "v={} h={} what={}",
        v.is_none() as u8,
        match &h {
            None => "-".to_string(),
            Some(d) => (d.is_none() as u8).to_string(),
        },
        what
    )
}

// ---------------------------------------------------------------------------------------------
// game sessions
// ---------------------------------------------------------------------------------------------

pub fn gstatus_text(s: GameStatus) -> &'static str {
    use GameStatus::*;
    match s {
        Ongoing => "ongoing",
        DrawOffered(Color::White) => "offered:w",
        DrawOffered(Color::Black) => "offered:b",
        CheckMated(Color::White) => "mate:w",
        CheckMated(Color::Black) => "mate:b",
        Resigned(Color::White) => "resigned:w",
        Resigned(Color::Black) => "resigned:b",
        FiftyMovesDrawDeclared => "fifty",
        TheoreticalDrawDeclared => "theo",
        RepetitionDrawDeclared => "rep",
        DrawAccepted => "accepted",
        Stalemate => "stale",
    }
}

/// `tag` value is printed raw ('?', '1-0', '0-1', '1/2-1/2'); a missing tag prints `none`, spaces
/// (impossible for the library's own values) would be replaced by '_'.
pub fn gobs(gm: &Game) -> String {
    let status = g(|| gstatus_text(gm.get_game_status()).to_string());
    let tag = g(|| {
        gm.get_metadata()
            .get_value("Result".to_string())
            .map_or("none".to_string(), |s| if s.is_empty() { "-".to_string() } else { s.replace(' ', "_") })
    });
    let cnt = g(|| gm.get_position_counter(&gm.get_position()).to_string());
    let hlen = g(|| gm.get_action_history().get_positions().len().to_string());
    let cnts = g(|| {
        let v: Vec<String> = gm
            .get_action_history()
            .get_positions()
            .iter()
            .map(|p| gm.get_position_counter(p).to_string())
            .collect();
        if v.is_empty() {
            "-".to_string()
        } else {
            v.join(",")
        }
    });
    let fen = g(|| {
        let p = gm.get_position();
        // the Game-level getters duplicate the position's: a disagreement spoils the value
        let same = gm.get_side_to_move() == p.get_side_to_move()
            && gm.get_move_number() == p.get_move_number()
            && gm.get_moves_since_capture_or_pawn_move() == p.get_moves_since_capture_or_pawn_move()
            && gm.as_fen() == p.as_fen()
            && gm.get_legal_moves().len() == p.get_legal_moves().len();
        format!("{}{}", gm.as_fen().replace(' ', "_"), if same { "" } else { "!getters" })
    });
    let hash = g(|| hx(gm.get_position().get_hash()));
    format!("status={status} tag={tag} cnt={cnt} hlen={hlen} cnts={cnts} fen={fen} hash={hash}")
}

/// Parses `m:<move>`, `offer:w`, ... ; the move text goes through the library's own
/// `BoardMove::from_str` (guarded).  `None` = not an action.
pub fn parse_action(a: &str) -> Option<Action> {
    match a {
        "offer:w" => Some(Action::OfferDraw(Color::White)),
        "offer:b" => Some(Action::OfferDraw(Color::Black)),
        "accept" => Some(Action::AcceptDraw),
        "decline" => Some(Action::DeclineDraw),
        "resign:w" => Some(Action::Resign(Color::White)),
        "resign:b" => Some(Action::Resign(Color::Black)),
        _ => {
            let t = a.strip_prefix("m:")?;
            catch(|| BoardMove::from_str(t).ok()).flatten().map(Action::MakeMove)
        }
    }
}

pub fn action_text(a: &Action) -> String {
    match a {
        Action::MakeMove(m) => format!("m:{}", move_text(m)),
        Action::OfferDraw(Color::White) => "offer:w".to_string(),
        Action::OfferDraw(Color::Black) => "offer:b".to_string(),
        Action::AcceptDraw => "accept".to_string(),
        Action::DeclineDraw => "decline".to_string(),
        Action::Resign(Color::White) => "resign:w".to_string(),
        Action::Resign(Color::Black) => "resign:b".to_string(),
    }
}

/// The current game session of the op stream.
#[derive(Default)]
pub struct Session {
    pub game: Option<Game>,
}

impl Session {
    /// `g.new`: a panic in `Game::from_board` is the observation `panic` and leaves no session.
    pub fn op_new(&mut self, b: &ChessBoard) -> String {
        let bb = *b;
        match catch(|| Game::from_board(bb)) {
            Some(gm) => {
                let o = gobs(&gm);
                self.game = Some(gm);
                o
            }
            None => {
                self.game = None;
                "panic".to_string()
            }
        }
    }

    /// `g.act`; returns (observation, result class).  Without a session: `r=nosession`.
    pub fn op_act(&mut self, a: &Action) -> (String, &'static str) {
        let gm = match self.game.as_mut() {
            Some(x) => x,
            None => return ("r=nosession".to_string(), "nosession"),
        };
        let r = match catch(|| gm.make_move(a).map(|_| ())) {
            None => "panic",
            Some(Ok(())) => "ok",
            Some(Err(LibChessError::IllegalActionDetected)) => "illegal",
            Some(Err(LibChessError::GameIsAlreadyFinished)) => "finished",
            Some(Err(_)) => "other",
        };
        (format!("r={} {}", r, gobs(gm)), r)
    }

    pub fn op_hist(&self) -> String {
        let gm = match self.game.as_ref() {
            Some(x) => x,
            None => return "r=nosession".to_string(),
        };
        let text = g(|| hex(&format!("{}", gm.get_action_history())));
        let lookup = g(|| {
            let h = gm.get_action_history();
            let ps = h.get_positions();
            let mut ok = true;
            for (i, p) in ps.iter().enumerate() {
                ok &= h.get_position_on_move(i).map_or(false, |x| x == *p);
            }
            ok &= h.get_position_on_move(ps.len()).is_err();
            ok &= h.get_position_on_move(ps.len() + 5).is_err();
            (ok as u8).to_string()
        });
        let flags = g(|| {
            let v: Vec<String> = gm
                .get_action_history()
                .get_metadata()
                .iter()
                .map(|p| {
                    format!(
                        "{}{}{}",
                        if p.is_capture { 'c' } else { '-' },
                        if p.is_check { 'k' } else { '-' },
                        if p.is_checkmate { 'm' } else { '-' }
                    )
                })
                .collect();
            if v.is_empty() {
                "-".to_string()
            } else {
                v.join(",")
            }
        });
        let chain = g(|| {
            let h = gm.get_action_history();
            let ps = h.get_positions();
            let ms = h.get_moves();
            let mut ok = ps.len() == ms.len() + 1;
            if ok {
                for i in 0..ms.len() {
                    ok &= ps[i].make_move(&ms[i]).map_or(false, |x| x == ps[i + 1]);
                }
                ok &= ps.last().map_or(false, |p| *p == gm.get_position());
            }
            (ok as u8).to_string()
        });
        format!("text={text} lookup={lookup} flags={flags} chain={chain}")
    }

    pub fn op_pgn(&self) -> String {
        let gm = match self.game.as_ref() {
            Some(x) => x,
            None => return "r=nosession".to_string(),
        };
        let pgn = match catch(|| gm.as_pgn()) {
            Some(p) => p,
            None => return "tags=panic words=panic rt=panic".to_string(),
        };
        // Text without "\n\n": everything is `tags`, `words` is empty.
        let (tags, rest) = match pgn.find("\n\n") {
            Some(i) => (&pgn[..i + 1], &pgn[i + 2..]),
            None => (&pgn[..], ""),
        };
        let words: Vec<&str> = rest.split_ascii_whitespace().collect();
        let rt = match catch(|| Game::from_pgn(&pgn)) {
            None => "panic".to_string(),
            Some(Err(_)) => "err".to_string(),
            Some(Ok(g2)) => g(|| {
                let (h1, h2) = (gm.get_action_history(), g2.get_action_history());
                let st1 = match gm.get_game_status() {
                    GameStatus::DrawOffered(_) => GameStatus::Ongoing,
                    s => s,
                };
                let ok = h1.get_moves() == h2.get_moves()
                    && h1.get_positions() == h2.get_positions()
                    && gm.get_metadata().get_value("Result".to_string())
                        == g2.get_metadata().get_value("Result".to_string())
                    && st1 == g2.get_game_status();
                (ok as u8).to_string()
            }),
        };
        // the tag section of the re-imported game's own export must equal the exported one (the metadata map itself cannot be
        // listed through the public API; `as_pgn` prints all of it)
        let rtags = match catch(|| Game::from_pgn(&pgn)) {
            None => "panic".to_string(),
            Some(Err(_)) => "err".to_string(),
            Some(Ok(g2)) => g(|| ((tag_section(&g2.as_pgn()) == tags) as u8).to_string()),
        };
        format!("tags={} words={} rt={} rtags={}", hex(tags), hex(&words.join(" ")), rt, rtags)
    }

    /// `g.tag`: `get_metadata_mut().set_value(key, value)`
    pub fn op_tag(&mut self, key: &str, val: &str) -> String {
        match self.game.as_mut() {
            None => "r=nosession".to_string(),
            Some(gm) => match catch(std::panic::AssertUnwindSafe(|| gm.get_metadata_mut().set_value(key.to_string(), val.to_string()))) {
                Some(()) => "r=ok".to_string(),
                None => "r=panic".to_string(),
            },
        }
    }
}

/// the part of a PGN text up to and including the newline before the first blank line
pub fn tag_section(pgn: &str) -> &str {
    match pgn.find("\n\n") {
        Some(i) => &pgn[..i + 1],
        None => pgn,
    }
}

// ---------------------------------------------------------------------------------------------
// g.probe: occurrence counter asked about a board that is NOT in the history but whose hash agrees with a history
// position on a LINEAR PROJECTION of the 64 bits (fifth wave, C11-e: counter keyed by a truncated hash)
// ---------------------------------------------------------------------------------------------

pub const PROJECTIONS: [(&str, fn(u64) -> u64); 6] = [
    ("lo32", |h| h & 0xffff_ffff),
    ("hi32", |h| h >> 32),
    ("fold32", |h| (h >> 32) ^ (h & 0xffff_ffff)),
    ("lo16", |h| h & 0xffff),
    ("fold16", |h| (h ^ (h >> 16) ^ (h >> 32) ^ (h >> 48)) & 0xffff),
    ("lo48", |h| h & 0xffff_ffff_ffff),
];

/// A valid position `q != p` with `proj(hash(q)) == proj(hash(p))`: `p` plus extra officers on empty squares whose piece-square
/// keys XOR to zero under the projection (Gaussian elimination over GF(2); the Zobrist hash is XOR-linear in the men).  The
/// extras are chosen so that the side not to move is not in check (`setup` decides; a few random type assignments are tried).
pub fn colliding_board(p: &ChessBoard, proj: fn(u64) -> u64, rng: &mut crate::util::Rng) -> Option<ChessBoard> {
    let z = &*ZOBRIST_TABLES;
    let cells: Vec<Option<Piece>> = (0..64).map(|i| p.get_piece_on(sq(i))).collect();
    let mut reserved = [false; 64];
    if let Some(e) = p.get_en_passant() {
        let i = e.to_index();
        reserved[i] = true;
        // the origin square of the pushed pawn lies one rank beyond the en-passant square (from the mover's point of view)
        let o = if p.get_side_to_move() == Color::White { i + 8 } else { i.wrapping_sub(8) };
        if o < 64 {
            reserved[o] = true;
        }
    }
    let officers = [PieceType::Knight, PieceType::Bishop, PieceType::Rook, PieceType::Queen];
    for _attempt in 0..24 {
        let mut cand: Vec<(usize, Piece)> = Vec::new();
        for i in 0..64 {
            if cells[i].is_none() && !reserved[i] && cand.len() < 64 {
                let c = if rng.pct(50) { Color::White } else { Color::Black };
                cand.push((i, Piece(officers[rng.below(4)], c)));
            }
        }
        // basis: (vector, combination mask, pivot bit)
        let mut basis: Vec<(u64, u64)> = Vec::new();
        let mut found: Option<u64> = None;
        for (k, (i, pc)) in cand.iter().enumerate() {
            let mut v = proj(z.get_piece_square_value(*pc, sq(*i)));
            let mut c = 1u64 << k;
            for (bv, bc) in basis.iter() {
                let pivot = 1u64 << (63 - bv.leading_zeros());
                if v & pivot != 0 {
                    v ^= bv;
                    c ^= bc;
                }
            }
            if v == 0 {
                found = Some(c);
                break;
            }
            basis.push((v, c));
            // keep the basis reduced enough: sort by pivot descending so that earlier pivots are eliminated first
            basis.sort_by(|a, b| b.0.cmp(&a.0));
        }
        let combo = match found { Some(c) => c, None => continue };
        let mut pcs: Vec<(Square, Piece)> = (0..64).filter_map(|i| cells[i].map(|x| (sq(i), x))).collect();
        for (k, (i, pc)) in cand.iter().enumerate() {
            if combo >> k & 1 == 1 {
                pcs.push((sq(*i), *pc));
            }
        }
        let q = catch(|| {
            ChessBoard::setup(
                &pcs,
                p.get_side_to_move(),
                p.get_castle_rights(Color::White),
                p.get_castle_rights(Color::Black),
                p.get_en_passant(),
                p.get_moves_since_capture_or_pawn_move(),
                p.get_move_number(),
            )
            .ok()
        })
        .flatten();
        if let Some(q) = q {
            if proj(q.get_hash()) == proj(p.get_hash()) && q.get_hash() != p.get_hash() {
                return Some(q);
            }
        }
    }
    None
}

/// `p` with exactly one square changed: kind even = an extra man on an empty square (pawns allowed on every rank), kind odd = a
/// non-king man replaced by a man of another type and/or colour.  `None` when `setup` refuses the result.
pub fn one_square_variant(p: &ChessBoard, kind: usize, rng: &mut crate::util::Rng) -> Option<ChessBoard> {
    let cells: Vec<Option<Piece>> = (0..64).map(|i| p.get_piece_on(sq(i))).collect();
    let mut pcs: Vec<(Square, Piece)> = (0..64).filter_map(|i| cells[i].map(|x| (sq(i), x))).collect();
    let ep = p.get_en_passant().map(|e| e.to_index());
    let rand_piece = |rng: &mut crate::util::Rng| Piece(pt(rng.below(5)), if rng.pct(50) { Color::White } else { Color::Black });
    if kind % 2 == 0 {
        let empties: Vec<usize> = (0..64).filter(|&i| cells[i].is_none() && Some(i) != ep).collect();
        if empties.is_empty() { return None; }
        // half of the extra men are pawns on a back rank when one is free
        let back: Vec<usize> = empties.iter().copied().filter(|&i| i < 8 || i >= 56).collect();
        if kind % 4 == 0 && !back.is_empty() {
            let i = *rng.pick(&back);
            pcs.push((sq(i), Piece(PieceType::Pawn, if rng.pct(50) { Color::White } else { Color::Black })));
        } else {
            let i = *rng.pick(&empties);
            pcs.push((sq(i), rand_piece(rng)));
        }
    } else {
        let idx: Vec<usize> = (0..pcs.len()).filter(|&j| pcs[j].1 .0 != PieceType::King).collect();
        if idx.is_empty() { return None; }
        let j = *rng.pick(&idx);
        let mut np = rand_piece(rng);
        for _ in 0..8 { if np != pcs[j].1 { break; } np = rand_piece(rng); }
        if np == pcs[j].1 { return None; }
        pcs[j].1 = np;
    }
    catch(|| {
        ChessBoard::setup(&pcs, p.get_side_to_move(), p.get_castle_rights(Color::White), p.get_castle_rights(Color::Black),
            p.get_en_passant(), p.get_moves_since_capture_or_pawn_move(), p.get_move_number()).ok()
    })
    .flatten()
}

impl Session {
    /// `g.probe <raw>`: `get_position_counter` of an arbitrary board
    pub fn op_probe(&self, q: &ChessBoard) -> String {
        match self.game.as_ref() {
            None => "r=nosession".to_string(),
            Some(gm) => format!("cnt={}", g(|| gm.get_position_counter(q).to_string())),
        }
    }
}

pub fn obs_frompgn(text: &str) -> (String, &'static str) {
    match catch(|| Game::from_pgn(text)) {
        None => ("r=panic".to_string(), "panic"),
        Some(Err(_)) => ("r=err".to_string(), "err"),
        Some(Ok(gm)) => {
            let st = g(|| gstatus_text(gm.get_game_status()).to_string());
            let n = g(|| gm.get_action_history().get_moves().len().to_string());
            let fen = g(|| gm.as_fen().replace(' ', "_"));
            let tags = g(|| hex(tag_section(&gm.as_pgn())));
            (format!("r=ok st={st} n={n} fen={fen} tags={tags}"), "ok")
        }
    }
}


// ---------------------------------------------------------------------------------------------
// rx: the three regexes of `Game::from_pgn`, read from the current /repo/src/games.rs, run by the real `regex` crate
// ---------------------------------------------------------------------------------------------

pub struct PgnPatterns {
    pub splitter: regex::Regex,
    pub moves: regex::Regex,
    pub result: regex::Regex,
}

fn raw_literal_after(src: &str, marker: &str) -> Option<String> {
    let i = src.find(marker)? + marker.len();
    let rest = &src[i..];
    let j = rest.find('"')?;
    Some(rest[..j].to_string())
}

/// all raw string literals `r"..."` of a source text
fn raw_literals(src: &str) -> Vec<String> {
    let mut v = Vec::new();
    let mut rest = src;
    while let Some(i) = rest.find("r\"") {
        let after = &rest[i + 2..];
        match after.find('"') {
            Some(j) => { v.push(after[..j].to_string()); rest = &after[j + 1..]; }
            None => break,
        }
    }
    v
}

/// Fallback when `from_pgn` was restructured (e.g. patterns moved into constants): pick the literals by content.
fn pgn_patterns_by_content(src: &str) -> Option<PgnPatterns> {
    let lits = raw_literals(src);
    let moves = lits.iter().find(|l| l.contains("O-O") && l.contains("[a-h]"))?;
    let result = lits.iter().find(|l| l.contains("1/2-1/2") && l.contains("1-0") && !l.contains("O-O"))?;
    let splitter = lits.iter().find(|l| l.contains("\\n") && l.contains("{2,}"))?;
    Some(PgnPatterns {
        splitter: regex::Regex::new(splitter).ok()?,
        moves: regex::Regex::new(moves).ok()?,
        result: regex::Regex::new(result).ok()?,
    })
}

/// `None` when the source no longer has a recognisable shape (reported as `rx=nopattern`).
pub fn pgn_patterns() -> Option<PgnPatterns> {
    pgn_patterns_exact().or_else(|| std::fs::read_to_string(format!("{}/src/games.rs", crate::repo_root())).ok().and_then(|s| pgn_patterns_by_content(&s)))
}

fn pgn_patterns_exact() -> Option<PgnPatterns> {
    let src = std::fs::read_to_string(format!("{}/src/games.rs", crate::repo_root())).ok()?;
    let fp = src.find("pub fn from_pgn")?;
    let body = &src[fp..];
    let moves = raw_literal_after(body, "let moves_pattern = r\"")?;
    // literal arguments of `Regex::new(r"...")` inside from_pgn, in source order: section splitter, result pattern
    let mut lits = Vec::new();
    let mut rest = body;
    while let Some(i) = rest.find("Regex::new(r\"") {
        let after = &rest[i + "Regex::new(r\"".len()..];
        let j = after.find('"')?;
        lits.push(after[..j].to_string());
        rest = &after[j..];
        if lits.len() >= 2 { break; }
    }
    if lits.len() < 2 { return None; }
    Some(PgnPatterns {
        splitter: regex::Regex::new(&lits[0]).ok()?,
        moves: regex::Regex::new(&moves).ok()?,
        result: regex::Regex::new(&lits[1]).ok()?,
    })
}

pub fn obs_rx(pats: &Option<PgnPatterns>, text: &str) -> String {
    let p = match pats { Some(p) => p, None => return "rx=nopattern".to_string() };
    let r = catch(|| {
        let sections: Vec<&str> = p.splitter.split(text).collect();
        let sec = sections.get(1).copied();
        match sec {
            None => format!("sec=none nsec={}", sections.len()),
            Some(ms) => {
                let toks: Vec<String> = p.moves.captures_iter(ms).map(|c| c[0].to_string()).collect();
                let res = p.result.captures_iter(ms).next().map(|c| c.get(0).unwrap().as_str().to_string());
                format!("sec={} nsec={} moves={} n={} res={}", hex(ms), sections.len(), hex(&toks.join(" ")), toks.len(),
                    res.map_or("none".to_string(), |r| hex(&r)))
            }
        }
    });
    r.unwrap_or_else(|| "panic".to_string())
}
