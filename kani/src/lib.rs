//! Bounded-model-checking harnesses (Kani / CBMC) for the `BitBoard` primitives whose domain is all of `u64`.
//!
//! NOT a proof of any property and not what decides C18 (the Lean theorems over the model do).  It supports the TIE: the Lean
//! model defines `trailing_zeros` / `leading_zeros` / `count_ones` "by definition" (least member, greatest member, number of
//! members) and the correspondence run can only sample 2^64 masks; these harnesses show, bit-precisely and for EVERY `u64`,
//! that the Rust functions meet exactly those definitions.
#![allow(dead_code)]
use libchess::*;

fn bit(x: u64, i: u32) -> bool { (x >> i) & 1 == 1 }

#[cfg(kani)]
mod proofs {
    use super::*;

    /// `last_bit_square` = the LEAST set bit (None for 0) — the model's `lowest`
    #[kani::proof]
    fn last_bit_square_is_lowest() {
        let x: u64 = kani::any();
        match BitBoard::new(x).last_bit_square() {
            None => assert!(x == 0),
            Some(s) => {
                let i = s.to_index() as u32;
                assert!(i < 64 && bit(x, i));
                let j: u32 = kani::any();
                kani::assume(j < i);
                assert!(!bit(x, j));
            }
        }
    }

    /// `first_bit_square` = the GREATEST set bit (None for 0) — the model's `highest`
    #[kani::proof]
    fn first_bit_square_is_highest() {
        let x: u64 = kani::any();
        match BitBoard::new(x).first_bit_square() {
            None => assert!(x == 0),
            Some(s) => {
                let i = s.to_index() as u32;
                assert!(i < 64 && bit(x, i));
                let j: u32 = kani::any();
                kani::assume(j > i && j < 64);
                assert!(!bit(x, j));
            }
        }
    }

    /// one step of the iterator: yields the least member and removes exactly it (the model's `toList` unfolds this step)
    #[kani::proof]
    fn iterator_step() {
        let x: u64 = kani::any();
        let mut b = BitBoard::new(x);
        match b.next() {
            None => assert!(x == 0),
            Some(s) => {
                let i = s.to_index() as u32;
                assert!(i < 64 && bit(x, i));
                assert!(b.bits() == x & !(1u64 << i));
                let j: u32 = kani::any();
                kani::assume(j < i);
                assert!(!bit(x, j));
            }
        }
    }

    /// `count_ones` of `x` with its least member removed is one less (with `count_ones(0) = 0` this characterises the count)
    #[kani::proof]
    fn count_ones_step() {
        let x: u64 = kani::any();
        if x == 0 {
            assert!(BitBoard::new(x).count_ones() == 0);
        } else {
            let low = x & x.wrapping_neg();
            assert!(BitBoard::new(x).count_ones() == BitBoard::new(x & !low).count_ones() + 1);
        }
    }

    /// `from_square` is the singleton; the operators are the bitwise ones; `*` is multiplication modulo 2^64
    #[kani::proof]
    fn operators() {
        let x: u64 = kani::any();
        let y: u64 = kani::any();
        let (a, b) = (BitBoard::new(x), BitBoard::new(y));
        assert!((a & b).bits() == x & y && (a | b).bits() == x | y && (a ^ b).bits() == x ^ y && (!a).bits() == !x);
        assert!((a * b).bits() == x.wrapping_mul(y));
        assert!(a.is_blank() == (x == 0));
        let i: u8 = kani::any();
        kani::assume(i < 64);
        assert!(BitBoard::from_square(Square::new(i).unwrap()).bits() == 1u64 << i);
    }
}
